//! Replay probes (see lib/probes.py): native tests against the real code, injected into a
//! scratch copy as `#[cfg(test)] mod verif_probe;`. Each probe checks the postcondition that
//! Verus failed to prove on boundary values and VERIF_SEED-seeded pseudo-random values and
//! prints `PROBE-FAIL <function> input=.. got=..` for the first input that breaks it.
#![allow(dead_code, unused_imports)]
use crate::dlt::*;

fn seed() -> u64 {
    std::env::var("VERIF_SEED").ok().and_then(|s| s.parse().ok()).unwrap_or(0)
}
struct Rng(u64);
impl Rng {
    fn next(&mut self) -> u64 {
        // splitmix64
        self.0 = self.0.wrapping_add(0x9E3779B97F4A7C15);
        let mut z = self.0;
        z = (z ^ (z >> 30)).wrapping_mul(0xBF58476D1CE4E5B9);
        z = (z ^ (z >> 27)).wrapping_mul(0x94D049BB133111EB);
        z ^ (z >> 31)
    }
}

fn u64_candidates(consts: &[u64], limit: u64) -> Vec<u64> {
    let mut v = vec![0u64, 1, 2, limit, limit.saturating_sub(1)];
    for c in consts {
        for d in [0u64, 1, 2] {
            v.push(c.saturating_sub(d));
            v.push(c.saturating_add(d));
            v.push(c.saturating_mul(2).saturating_add(d));
        }
    }
    let mut r = Rng(seed());
    for _ in 0..2000 {
        v.push(r.next() % (limit.saturating_add(1).max(1)));
    }
    v.retain(|x| *x <= limit);
    v
}

fn report(f: &str, input: String, got: String) -> ! {
    println!("PROBE-FAIL {} input={} got={}", f, input, got);
    panic!("probe found a failing input");
}

#[test]
fn probe_from_us() {
    let limit = (u32::MAX as u64) * 1_000_000 + 999_999;
    for us in u64_candidates(&[1000, 1_000_000, 4295, 4294, 4_294_967], limit) {
        let r = std::panic::catch_unwind(|| DltTimeStamp::from_us(us));
        match r {
            Err(_) => report("DltTimeStamp::from_us", format!("us={}", us), "panic".into()),
            Ok(ts) => {
                if !(ts.microseconds < 1_000_000
                    && ts.seconds as u128 * 1_000_000 + ts.microseconds as u128 == us as u128)
                {
                    report(
                        "DltTimeStamp::from_us",
                        format!("us={}", us),
                        format!("seconds={} microseconds={}", ts.seconds, ts.microseconds),
                    );
                }
            }
        }
    }
}

#[test]
fn probe_from_ms() {
    let limit = (u32::MAX as u64) * 1000 + 999;
    for ms in u64_candidates(&[1000, 1_000_000, 4295, 4294, 4_294_967], limit) {
        let r = std::panic::catch_unwind(|| DltTimeStamp::from_ms(ms));
        match r {
            Err(_) => report("DltTimeStamp::from_ms", format!("ms={}", ms), "panic".into()),
            Ok(ts) => {
                if !(ts.microseconds < 1_000_000
                    && ts.seconds as u128 * 1_000_000 + ts.microseconds as u128 == ms as u128 * 1000)
                {
                    report(
                        "DltTimeStamp::from_ms",
                        format!("ms={}", ms),
                        format!("seconds={} microseconds={}", ts.seconds, ts.microseconds),
                    );
                }
            }
        }
    }
}

fn hex(b: &[u8]) -> String {
    b.iter().map(|x| format!("{:02x}", x)).collect::<Vec<_>>().join("")
}

/// C04 postcondition of the message parser on shaped buffers in which the declared length LEN,
/// the argument count NOAR and the payload bytes are independent of each other.
#[test]
fn probe_dlt_message_intern() {
    use crate::parse::{dlt_message, ParsedMessage};
    let mut rng = Rng(seed());
    let msins: [u8; 6] = [0x41, 0x40, 0x26, 0x27, 0x25, 0x35];
    let mut tried = 0u64;
    for with_storage in [false, true] {
        for flags in 0u8..32 {
            for msin in msins {
                for noar in 0u8..3 {
                    for extra in 0usize..10 {
                        let htyp = (1u8 << 5) | (flags & 0x1F);
                        let ueh = htyp & 1 != 0;
                        let mut headers = 4usize;
                        for bit in [0x04u8, 0x08, 0x10] {
                            if htyp & bit != 0 {
                                headers += 4;
                            }
                        }
                        if ueh {
                            headers += 10;
                        }
                        let len = headers + extra;
                        let mut buf: Vec<u8> = Vec::new();
                        if with_storage {
                            buf.extend_from_slice(b"DLT\x01");
                            buf.extend_from_slice(&[1, 2, 3, 4, 5, 6, 7, 8]);
                            buf.extend_from_slice(b"ECU\0");
                        }
                        let s = buf.len();
                        buf.push(htyp);
                        buf.push(7);
                        buf.extend_from_slice(&(len as u16).to_be_bytes());
                        while buf.len() < s + headers - if ueh { 10 } else { 0 } {
                            buf.push(b'A' + (buf.len() % 7) as u8);
                        }
                        if ueh {
                            buf.push(msin);
                            buf.push(noar);
                            buf.extend_from_slice(b"APP\0CTX\0");
                        }
                        // payload area: one well-formed U8 argument (type info UINT|TYLE=1, value) in
                        // the message byte order, then pseudo-random bytes
                        let big = htyp & 0x02 != 0;
                        let ti: u32 = 0x41;
                        buf.extend_from_slice(&(if big { ti.to_be_bytes() } else { ti.to_le_bytes() }));
                        buf.push(0x2A);
                        for _ in 0..12 {
                            buf.push((rng.next() & 0xFF) as u8);
                        }
                        tried += 1;
                        let total = buf.len();
                        let b2 = buf.clone();
                        let r = std::panic::catch_unwind(move || match dlt_message(&b2, None, with_storage) {
                            Ok((rest, ParsedMessage::Item(_))) => Some((rest.len(), 0usize, 0u8)),
                            Ok((rest, ParsedMessage::FilteredOut(n))) => Some((rest.len(), n, 1)),
                            Ok((rest, ParsedMessage::Invalid)) => Some((rest.len(), 0, 2)),
                            Err(_) => None,
                        });
                        match r {
                            Err(_) => report("dlt_message_intern", format!("with_storage={} bytes={}", with_storage, hex(&buf)), "panic".into()),
                            Ok(Some((rest_len, _n, kind))) => {
                                let want = total - (s + len);
                                if kind == 2 || rest_len != want || s + len > total {
                                    report(
                                        "dlt_message_intern",
                                        format!("with_storage={} LEN={} headers={} NOAR={} bytes={}", with_storage, len, headers, noar, hex(&buf)),
                                        format!("Ok with {} bytes left, the declared message ends {} bytes before the end of the buffer (kind {})", rest_len, want, kind),
                                    );
                                }
                            }
                            Ok(None) => {}
                        }
                    }
                }
            }
        }
    }
    println!("probe_dlt_message_intern: {} shaped buffers, no failing input", tried);
}

/// reference for C19: longest valid-UTF-8 prefix of the bytes before the first NUL among the
/// first `size` bytes; exact consumption
fn ref_zts(s: &[u8], size: usize) -> Option<(usize, Vec<u8>)> {
    if s.len() < size {
        return None;
    }
    let field = &s[..size];
    let k = field.iter().position(|b| *b == 0).unwrap_or(size);
    let content = &field[..k];
    let valid = match std::str::from_utf8(content) {
        Ok(_) => content.len(),
        Err(e) => e.valid_up_to(),
    };
    Some((size, content[..valid].to_vec()))
}

#[test]
fn probe_zero_terminated() {
    use crate::parse::dlt_zero_terminated_string;
    let alphabet: [u8; 6] = [0x00, 0x41, 0x7F, 0xC3, 0xA4, 0xFF];
    let mut rng = Rng(seed());
    for len in 0usize..=6 {
        let total = 6usize.pow(len as u32);
        for idx in 0..total.min(3000) {
            let mut code = if total <= 3000 { idx } else { (rng.next() % total as u64) as usize };
            let mut s = Vec::with_capacity(len);
            for _ in 0..len {
                s.push(alphabet[code % 6]);
                code /= 6;
            }
            for size in 0usize..=7 {
                let s2 = s.clone();
                let r = std::panic::catch_unwind(move || match dlt_zero_terminated_string(&s2, size) {
                    Ok((rest, t)) => Ok((s2.len() - rest.len(), t.as_bytes().to_vec())),
                    Err(e) => Err(format!("{:?}", e)),
                });
                let want = ref_zts(&s, size);
                match (r, want) {
                    (Err(_), _) => report("dlt_zero_terminated_string_intern", format!("s={} size={}", hex(&s), size), "panic".into()),
                    (Ok(Ok((c, t))), Some((wc, wt))) => {
                        if c != wc || t != wt {
                            report("dlt_zero_terminated_string_intern", format!("s={} size={}", hex(&s), size), format!("consumed {} text {} (reference: consumed {} text {})", c, hex(&t), wc, hex(&wt)));
                        }
                    }
                    (Ok(Ok((c, t))), None) => report("dlt_zero_terminated_string_intern", format!("s={} size={}", hex(&s), size), format!("Ok(consumed {}, text {}) although fewer than size bytes are present", c, hex(&t))),
                    (Ok(Err(e)), Some(_)) => report("dlt_zero_terminated_string_intern", format!("s={} size={}", hex(&s), size), format!("Err({}) although size bytes are present", e)),
                    (Ok(Err(e)), None) => {
                        if !e.contains("IncompleteParse") {
                            report("dlt_zero_terminated_string_intern", format!("s={} size={}", hex(&s), size), format!("Err({}) instead of incomplete", e));
                        }
                    }
                }
            }
        }
    }
}

/// C09 decision on crafted messages: level / app id / context id / ECU id / count rules
#[test]
fn probe_filtered_out() {
    use crate::filtering::{DltFilterConfig, ProcessedDltFilterConfig};
    use crate::parse::{dlt_message, ParsedMessage};
    let ids = ["APP", "XYZ"];
    for with_ext in [true, false] {
        for level in 1u8..=6 {
            for min in [None, Some(1u8), Some(3), Some(6), Some(0), Some(9)] {
                for app_sel in [None, Some(vec![]), Some(vec!["APP".to_string()]), Some(vec!["XYZ".to_string()]), Some(vec!["APP".to_string(), "XYZ".to_string()])] {
                    for count in [0i64, 1, 2, 3] {
                        let mut buf: Vec<u8> = Vec::new();
                        let htyp = (1u8 << 5) | 0x04 | if with_ext { 1 } else { 0 };
                        let len = 4 + 4 + if with_ext { 10 } else { 0 } + 4;
                        buf.push(htyp);
                        buf.push(0);
                        buf.extend_from_slice(&(len as u16).to_be_bytes());
                        buf.extend_from_slice(b"ECU\0");
                        if with_ext {
                            buf.push(level << 4);
                            buf.push(0);
                            buf.extend_from_slice(b"APP\0CTX\0");
                        }
                        buf.extend_from_slice(&[1, 2, 3, 4]);
                        let cfg = DltFilterConfig { min_log_level: min, app_ids: app_sel.clone(), ecu_ids: None, context_ids: None, app_id_count: count, context_id_count: 0 };
                        let p: ProcessedDltFilterConfig = cfg.into();
                        let got = match dlt_message(&buf, Some(&p), false) {
                            Ok((_, ParsedMessage::FilteredOut(_))) => true,
                            Ok((_, ParsedMessage::Item(_))) => false,
                            other => report("filtered_out", format!("bytes={}", hex(&buf)), format!("{:?}", other.map(|x| x.1))),
                        };
                        let want = if with_ext {
                            let by_level = match min { Some(m) if (1..=6).contains(&m) => level > m, _ => false };
                            let by_app = match &app_sel { Some(v) => !v.iter().any(|x| x == ids[0]), None => false };
                            by_level || by_app
                        } else {
                            match &app_sel { Some(v) => { let mut d = v.clone(); d.sort(); d.dedup(); count > d.len() as i64 } None => false }
                        };
                        if got != want {
                            report("filtered_out", format!("ext={} level={} min={:?} app_ids={:?} app_id_count={} bytes={}", with_ext, level, min, app_sel, count, hex(&buf)), format!("filtered_out={} (property: {})", got, want));
                        }
                    }
                }
            }
        }
    }
}

fn probe_headers() -> Vec<(StandardHeader, u16)> {
    let mut v = Vec::new();
    for flags in 0u8..16 {
        let hl: u16 = 4 + if flags & 1 != 0 { 4 } else { 0 } + if flags & 2 != 0 { 4 } else { 0 } + if flags & 4 != 0 { 4 } else { 0 } + if flags & 8 != 0 { 10 } else { 0 };
        for pl in [0u16, 1, 4, 100, 65535 - hl, 65534 - hl] {
            v.push((
                StandardHeader {
                    version: 1,
                    endianness: Endianness::Little,
                    has_extended_header: flags & 8 != 0,
                    message_counter: 0,
                    ecu_id: if flags & 1 != 0 { Some("ECU".to_string()) } else { None },
                    session_id: if flags & 2 != 0 { Some(7) } else { None },
                    timestamp: if flags & 4 != 0 { Some(9) } else { None },
                    payload_length: pl,
                },
                hl,
            ));
        }
    }
    v
}

#[test]
fn probe_overall_length() {
    for (h, hl) in probe_headers() {
        let want = hl as u32 + h.payload_length as u32;
        let h2 = h.clone();
        match std::panic::catch_unwind(move || h2.overall_length()) {
            Err(_) => report("StandardHeader::overall_length", format!("{:?}", h), "panic".into()),
            Ok(r) => {
                if r as u32 != want {
                    report("StandardHeader::overall_length", format!("{:?}", h), format!("{} (layout: {})", r, want));
                }
            }
        }
    }
}

#[test]
fn probe_validated_payload_length() {
    use crate::parse::{validated_payload_length, DltParseError};
    for (h, hl) in probe_headers() {
        let len = hl as usize + h.payload_length as usize;
        for remaining in [0usize, 1, len.saturating_sub(1), len, len + 1, 70000] {
            let h2 = h.clone();
            match std::panic::catch_unwind(move || validated_payload_length(&h2, remaining)) {
                Err(_) => report("validated_payload_length", format!("{:?} remaining={}", h, remaining), "panic".into()),
                Ok(r) => {
                    let ok = if len > remaining {
                        matches!(&r, Err(DltParseError::IncompleteParse { needed: Some(n) }) if n.get() == len - remaining)
                    } else {
                        matches!(&r, Ok(p) if *p == h.payload_length)
                    };
                    if !ok {
                        report("validated_payload_length", format!("{:?} remaining={}", h, remaining), format!("{:?}", r));
                    }
                }
            }
        }
    }
}

/// C04 (skipper): Some(c) => c == 16 + LEN and the rest starts there
#[test]
fn probe_consume_msg() {
    use crate::parse::dlt_consume_msg;
    let mut rng = Rng(seed());
    for flags in 0u8..32 {
        for extra in 0usize..6 {
            for ecu_blank in [false, true] {
                let htyp = (1u8 << 5) | flags;
                let mut headers = 4usize;
                for bit in [0x04u8, 0x08, 0x10] {
                    if htyp & bit != 0 {
                        headers += 4;
                    }
                }
                if htyp & 1 != 0 {
                    headers += 10;
                }
                let len = headers + extra;
                let mut buf: Vec<u8> = Vec::new();
                buf.extend_from_slice(b"DLT\x01");
                buf.extend_from_slice(&[1, 2, 3, 4, 5, 6, 7, 8]);
                buf.extend_from_slice(b"ECU\0");
                buf.push(htyp);
                buf.push(9);
                buf.extend_from_slice(&(len as u16).to_be_bytes());
                if htyp & 0x04 != 0 {
                    buf.extend_from_slice(if ecu_blank { b"\0\0\0\0" } else { b"AB\0\0" });
                }
                while buf.len() < 16 + len + 5 {
                    buf.push((rng.next() & 0xFF) as u8);
                }
                let total = buf.len();
                let b2 = buf.clone();
                let r = std::panic::catch_unwind(move || dlt_consume_msg(&b2).map(|(rest, c)| (rest.len(), c)));
                match r {
                    Err(_) => report("dlt_consume_msg", format!("bytes={}", hex(&buf)), "panic".into()),
                    Ok(Ok((rest_len, Some(c)))) => {
                        if c as usize != 16 + len || rest_len != total - (16 + len) {
                            report("dlt_consume_msg", format!("LEN={} bytes={}", len, hex(&buf)), format!("consumed {} with {} bytes left; the message ends at {}", c, rest_len, 16 + len));
                        }
                    }
                    Ok(other) => report("dlt_consume_msg", format!("LEN={} bytes={}", len, hex(&buf)), format!("{:?}", other)),
                }
            }
        }
    }
}

/// C15: Message::new post-state for every payload kind
#[test]
fn probe_message_new() {
    use byteorder::{BigEndian, LittleEndian};
    let payloads = vec![
        PayloadContent::NonVerbose(7, vec![1, 2]),
        PayloadContent::ControlMsg(ControlType::Request, vec![3]),
        PayloadContent::Verbose(vec![]),
        PayloadContent::NetworkTrace(vec![vec![1, 2, 3]]),
        PayloadContent::NetworkTrace(vec![vec![], vec![9]]),
    ];
    for p in payloads {
        for big in [false, true] {
            for with_ext in [false, true] {
                let conf = MessageConfig {
                    version: 1,
                    counter: 5,
                    endianness: if big { Endianness::Big } else { Endianness::Little },
                    ecu_id: Some("E".to_string()),
                    session_id: Some(11),
                    timestamp: None,
                    payload: p.clone(),
                    extended_header_info: if with_ext { Some(ExtendedHeaderConfig { message_type: MessageType::Log(LogLevel::Info), app_id: "A".into(), context_id: "C".into() }) } else { None },
                };
                let m = Message::new(conf, None);
                let n = if big { p.as_bytes::<BigEndian>().len() } else { p.as_bytes::<LittleEndian>().len() };
                let want_verbose = matches!(p, PayloadContent::Verbose(_) | PayloadContent::NetworkTrace(_));
                let want_noar = match &p { PayloadContent::Verbose(a) => a.len(), PayloadContent::NetworkTrace(s) => s.len(), _ => 0 };
                let ok_hdr = m.header.payload_length as usize == n && m.header.has_extended_header == with_ext && m.header.message_counter == 5
                    && m.header.session_id == Some(11) && m.header.timestamp.is_none() && m.header.ecu_id.as_deref() == Some("E");
                let ok_ext = match &m.extended_header { Some(e) => with_ext && e.verbose == want_verbose && e.argument_count as usize == want_noar, None => !with_ext };
                if !(ok_hdr && ok_ext) {
                    report("Message::new", format!("payload={:?} big={} ext={}", p, big, with_ext), format!("header={:?} ext={:?} (payload serialises to {} bytes, kind wants verbose={} noar={})", m.header, m.extended_header, n, want_verbose, want_noar));
                }
            }
        }
    }
}

/// C10: the standard collector's step on crafted statistics vs an independent tally
#[cfg(feature = "statistics")]
#[test]
fn probe_collect_statistic() {
    use crate::statistics::{common::*, Statistic, StatisticCollector};
    fn std_h(ecu: Option<&str>, ext: bool) -> StandardHeader {
        StandardHeader { version: 1, endianness: Endianness::Little, has_extended_header: ext, message_counter: 0, ecu_id: ecu.map(|s| s.to_string()), session_id: None, timestamp: None, payload_length: 0 }
    }
    fn ext_h(verbose: bool, app: &str, ctx: &str) -> ExtendedHeader {
        ExtendedHeader { verbose, argument_count: 0, message_type: MessageType::Log(LogLevel::Info), application_id: app.to_string(), context_id: ctx.to_string() }
    }
    let levels = [None, Some(LogLevel::Fatal), Some(LogLevel::Warn), Some(LogLevel::Invalid(9)), Some(LogLevel::Invalid(0))];
    for (i1, l1) in levels.iter().enumerate() {
        for (i2, l2) in levels.iter().enumerate() {
            for with_ext2 in [false, true] {
                for verbose2 in [false, true] {
                    let mut c = StatisticInfoCollector::default();
                    let s1 = Statistic { log_level: *l1, storage_header: None, standard_header: std_h(Some("E1"), true), extended_header: Some(ext_h(true, "AP", "CT")), payload: &[], is_verbose: true };
                    let is_verbose2 = with_ext2 && verbose2;
                    let s2 = Statistic { log_level: *l2, storage_header: None, standard_header: std_h(Some("E1"), with_ext2), extended_header: if with_ext2 { Some(ext_h(verbose2, "AP", "C2")) } else { None }, payload: &[], is_verbose: is_verbose2 };
                    let _ = c.collect_statistic(s1);
                    let _ = c.collect_statistic(s2);
                    let info = c.collect();
                    let bucket = |d: &LevelDistribution, l: &Option<LogLevel>| -> usize {
                        match l { None => d.non_log, Some(LogLevel::Fatal) => d.log_fatal, Some(LogLevel::Error) => d.log_error, Some(LogLevel::Warn) => d.log_warning, Some(LogLevel::Info) => d.log_info, Some(LogLevel::Debug) => d.log_debug, Some(LogLevel::Verbose) => d.log_verbose, Some(LogLevel::Invalid(_)) => d.log_invalid }
                    };
                    let total = |d: &LevelDistribution| d.non_log + d.log_fatal + d.log_error + d.log_warning + d.log_info + d.log_debug + d.log_verbose + d.log_invalid;
                    let same_bucket = std::mem::discriminant(l1) == std::mem::discriminant(l2) && match (l1, l2) { (Some(a), Some(b)) => std::mem::discriminant(a) == std::mem::discriminant(b), _ => true };
                    let ecu = info.ecu_ids.iter().find(|(id, _)| id == "E1").map(|x| &x.1);
                    let app = info.app_ids.iter().find(|(id, _)| id == "AP").map(|x| &x.1);
                    let ok = match (ecu, app) {
                        (Some(e), Some(a)) => {
                            total(e) == 2 && bucket(e, l1) == if same_bucket { 2 } else { 1 } && bucket(e, l2) == if same_bucket { 2 } else { 1 }
                                && total(a) == if with_ext2 { 2 } else { 1 } && info.ecu_ids.len() == 1
                                && info.contained_non_verbose == !is_verbose2
                        }
                        _ => false,
                    };
                    if !ok {
                        report("collect_statistic", format!("levels #{} #{} second message ext={} verbose={}", i1, i2, with_ext2, verbose2), format!("{:?}", info));
                    }
                }
            }
        }
    }
}

/// C06: forward_to_next_storage_header == first occurrence of "DLT\x01" (naive scan), on every
/// buffer of <= 9 bytes over the alphabet {D, L, T, 0x01, 0x00} (the bytes the pattern is made of
/// plus one other), and seeded random longer buffers over the same alphabet.
#[test]
fn probe_forward() {
    use crate::parse::forward_to_next_storage_header;
    const AL: [u8; 5] = [b'D', b'L', b'T', 1, 0];
    fn naive(b: &[u8]) -> Option<usize> {
        (0..b.len().saturating_sub(3)).find(|&i| b.len() >= 4 && &b[i..i + 4] == b"DLT\x01")
    }
    fn check(buf: &[u8]) {
        let b2 = buf.to_vec();
        let r = std::panic::catch_unwind(move || forward_to_next_storage_header(&b2).map(|(k, rest)| (k, rest.len())));
        let want = naive(buf);
        match r {
            Err(_) => report("forward_to_next_storage_header", format!("bytes={}", hex(buf)), "panic".into()),
            Ok(got) => {
                let good = match (got, want) {
                    (None, None) => true,
                    (Some((k, rl)), Some(e)) => k as usize == e && rl == buf.len() - e,
                    _ => false,
                };
                if !good {
                    report("forward_to_next_storage_header", format!("bytes={}", hex(buf)), format!("returned {:?} (offset, rest length); the first pattern occurrence is {:?}", got, want));
                }
            }
        }
    }
    for n in 0usize..=9 {
        let total = 5usize.pow(n as u32);
        let mut buf = vec![0u8; n];
        for code in 0..total {
            let mut c = code;
            for slot in buf.iter_mut() {
                *slot = AL[c % 5];
                c /= 5;
            }
            check(&buf);
        }
    }
    let mut rng = Rng(seed());
    for _ in 0..20000 {
        let n = 10 + (rng.next() % 40) as usize;
        let buf: Vec<u8> = (0..n).map(|_| AL[(rng.next() % 5) as usize]).collect();
        check(&buf);
    }
}

/// C01 / C02 (writers): Message::as_bytes against an independent layout writer, and the round
/// trip through dlt_message, for every combination of optional header fields x storage header x
/// extended header x byte order x payload kind (incl. non-ASCII ids / names and a network trace)
#[test]
fn probe_writers() {
    use crate::parse::{dlt_message, ParsedMessage};
    fn id4(s: &str) -> Vec<u8> {
        let mut v = s.as_bytes().to_vec();
        while v.len() < 4 {
            v.push(0);
        }
        v
    }
    fn w16(big: bool, n: u16) -> [u8; 2] { if big { n.to_be_bytes() } else { n.to_le_bytes() } }
    fn w32(big: bool, n: u32) -> [u8; 4] { if big { n.to_be_bytes() } else { n.to_le_bytes() } }
    let named = Argument {
        type_info: TypeInfo { kind: TypeInfoKind::Unsigned(TypeLength::BitLength16), coding: StringCoding::UTF8, has_variable_info: true, has_trace_info: false },
        name: Some("gr\u{f6}\u{df}e".to_string()),
        unit: Some("\u{b0}C".to_string()),
        fixed_point: None,
        value: Value::U16(0x1234),
    };
    let text = Argument {
        type_info: TypeInfo { kind: TypeInfoKind::StringType, coding: StringCoding::UTF8, has_variable_info: false, has_trace_info: false },
        name: None,
        unit: None,
        fixed_point: None,
        value: Value::StringVal("a\u{20ac}b".to_string()),
    };
    // variable info announced but no name / unit given: each is written as length 1 + NUL
    let unnamed = Argument {
        type_info: TypeInfo { kind: TypeInfoKind::Unsigned(TypeLength::BitLength8), coding: StringCoding::UTF8, has_variable_info: true, has_trace_info: false },
        name: None,
        unit: None,
        fixed_point: None,
        value: Value::U8(0x7E),
    };
    for big in [false, true] {
        use byteorder::{BigEndian, LittleEndian};
        let got = if big { unnamed.as_bytes::<BigEndian>() } else { unnamed.as_bytes::<LittleEndian>() };
        let mut want = w32(big, 0x41 | 0x800 | 0x8000).to_vec();
        want.extend_from_slice(&w16(big, 1));
        want.extend_from_slice(&w16(big, 1));
        want.extend_from_slice(&[0, 0, 0x7E]);
        if got != want {
            report("Argument::as_bytes", format!("{:?} big={}", unnamed, big), format!("wrote {} but the layout (announced lengths cover the NUL terminators that follow) is {}", hex(&got), hex(&want)));
        }
    }
    let payloads = vec![
        PayloadContent::NonVerbose(0x01020304, vec![9, 8, 7]),
        PayloadContent::ControlMsg(ControlType::Response, vec![0x11, 0, 1]),
        PayloadContent::Verbose(vec![]),
        PayloadContent::Verbose(vec![named.clone(), text.clone()]),
        PayloadContent::NetworkTrace(vec![vec![1, 2, 3], vec![], vec![0xAA]]),
    ];
    for p in &payloads {
        for flags in 0u8..32 {
            let big = flags & 1 != 0;
            let with_ecu = flags & 2 != 0;
            let with_sid = flags & 4 != 0;
            let with_tms = flags & 8 != 0;
            let with_sto = flags & 16 != 0;
            for with_ext in [false, true] {
                let is_ctrl = matches!(p, PayloadContent::ControlMsg(..));
                let is_verbose_kind = matches!(p, PayloadContent::Verbose(_) | PayloadContent::NetworkTrace(_));
                if (is_ctrl || is_verbose_kind) && !with_ext {
                    continue; // not well-formed: these kinds need the extended header to parse back
                }
                let mt = match p {
                    PayloadContent::ControlMsg(..) => MessageType::Control(ControlType::Response),
                    PayloadContent::NetworkTrace(_) => MessageType::NetworkTrace(NetworkTraceType::Can),
                    _ => MessageType::Log(LogLevel::Warn),
                };
                let conf = MessageConfig {
                    version: 1,
                    counter: 0xC7,
                    endianness: if big { Endianness::Big } else { Endianness::Little },
                    ecu_id: if with_ecu { Some("\u{e9}C".to_string()) } else { None },
                    session_id: if with_sid { Some(0xA1B2C3D4) } else { None },
                    timestamp: if with_tms { Some(0x01020304) } else { None },
                    payload: p.clone(),
                    extended_header_info: if with_ext { Some(ExtendedHeaderConfig { message_type: mt.clone(), app_id: "AP".into(), context_id: "CTX4".into() }) } else { None },
                };
                let sto = if with_sto { Some(StorageHeader { timestamp: DltTimeStamp { seconds: 0x0A0B0C0D, microseconds: 999_999 }, ecu_id: "S1".into() }) } else { None };
                let m = Message::new(conf, sto);
                let inp = format!("payload={:?} big={} ecu={} sid={} tms={} storage={} ext={}", p, big, with_ecu, with_sid, with_tms, with_sto, with_ext);
                let m2 = m.clone();
                let bytes = match std::panic::catch_unwind(move || m2.as_bytes()) {
                    Ok(b) => b,
                    Err(_) => report("Message::as_bytes", inp, "panic".into()),
                };
                // independent layout
                let mut want: Vec<u8> = Vec::new();
                if with_sto {
                    want.extend_from_slice(b"DLT\x01");
                    want.extend_from_slice(&0x0A0B0C0Du32.to_le_bytes());
                    want.extend_from_slice(&999_999u32.to_le_bytes());
                    want.extend_from_slice(&id4("S1"));
                }
                let pay: Vec<u8> = match p {
                    PayloadContent::NonVerbose(id, b) => { let mut v = w32(big, *id).to_vec(); v.extend_from_slice(b); v }
                    PayloadContent::ControlMsg(_, b) => { let mut v = vec![2u8]; v.extend_from_slice(b); v }
                    PayloadContent::NetworkTrace(sl) => {
                        let mut v = Vec::new();
                        for s in sl {
                            v.extend_from_slice(&w32(big, 0x400));
                            v.extend_from_slice(&w16(big, s.len() as u16));
                            v.extend_from_slice(s);
                        }
                        v
                    }
                    PayloadContent::Verbose(args) => {
                        let mut v = Vec::new();
                        for a in args {
                            if a.name.is_some() {
                                // U16 with variable info, UTF-8: type info 0x42 | VARI(0x800) | SCOD utf8 (0x8000)
                                v.extend_from_slice(&w32(big, 0x42 | 0x800 | 0x8000));
                                let n = a.name.as_ref().unwrap().as_bytes();
                                let u = a.unit.as_ref().unwrap().as_bytes();
                                v.extend_from_slice(&w16(big, n.len() as u16 + 1));
                                v.extend_from_slice(&w16(big, u.len() as u16 + 1));
                                v.extend_from_slice(n);
                                v.push(0);
                                v.extend_from_slice(u);
                                v.push(0);
                                v.extend_from_slice(&w16(big, 0x1234));
                            } else {
                                v.extend_from_slice(&w32(big, 0x200 | 0x8000));
                                let s = "a\u{20ac}b".as_bytes();
                                v.extend_from_slice(&w16(big, s.len() as u16 + 1));
                                v.extend_from_slice(s);
                                v.push(0);
                            }
                        }
                        v
                    }
                };
                let hl = 4 + if with_ecu { 4 } else { 0 } + if with_sid { 4 } else { 0 } + if with_tms { 4 } else { 0 } + if with_ext { 10 } else { 0 };
                let htyp = (with_ext as u8) | ((big as u8) << 1) | ((with_ecu as u8) << 2) | ((with_sid as u8) << 3) | ((with_tms as u8) << 4) | (1 << 5);
                want.push(htyp);
                want.push(0xC7);
                want.extend_from_slice(&((hl + pay.len()) as u16).to_be_bytes());
                if with_ecu {
                    want.extend_from_slice(&id4("\u{e9}C"));
                }
                if with_sid {
                    want.extend_from_slice(&0xA1B2C3D4u32.to_be_bytes());
                }
                if with_tms {
                    want.extend_from_slice(&0x01020304u32.to_be_bytes());
                }
                if with_ext {
                    let (mstp, mtin) = match mt { MessageType::Control(_) => (3u8, 2u8), MessageType::NetworkTrace(_) => (2, 2), _ => (0, 3) };
                    want.push((is_verbose_kind as u8) | (mstp << 1) | (mtin << 4));
                    want.push(match p { PayloadContent::Verbose(a) => a.len() as u8, PayloadContent::NetworkTrace(s) => s.len() as u8, _ => 0 });
                    want.extend_from_slice(&id4("AP"));
                    want.extend_from_slice(&id4("CTX4"));
                }
                want.extend_from_slice(&pay);
                if bytes != want {
                    report("Message::as_bytes", inp, format!("wrote {} but the layout is {}", hex(&bytes), hex(&want)));
                }
                // round trip with a tail
                let mut buf = bytes.clone();
                buf.extend_from_slice(&[0x5A, 0x5B]);
                let b2 = buf.clone();
                let r = std::panic::catch_unwind(move || match dlt_message(&b2, None, with_sto) {
                    Ok((rest, ParsedMessage::Item(x))) => Some((rest.len(), x)),
                    _ => None,
                });
                match r {
                    Ok(Some((rl, x))) => {
                        // a network-trace payload comes back as such; everything else field for field
                        if rl != 2 || x != m {
                            report("dlt_message", format!("{} bytes={}", inp, hex(&buf)), format!("parsed back {:?} with {} bytes left; the original is {:?}", x, rl, m));
                        }
                    }
                    Ok(None) => report("dlt_message", format!("{} bytes={}", inp, hex(&buf)), "the serialised message does not parse back".into()),
                    Err(_) => report("dlt_message", format!("{} bytes={}", inp, hex(&buf)), "panic".into()),
                }
            }
        }
    }
}
