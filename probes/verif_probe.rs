//! Replay probes (see lib/probes.py): native tests against the real code, injected into a
//! scratch copy as `#[cfg(test)] mod verif_probe;`. Each probe checks the postcondition that
//! Verus failed to prove on boundary values and VERIF_SEED-seeded pseudo-random values and
//! prints `PROBE-FAIL <function> input=.. got=..` for the first input that breaks it.
#![allow(dead_code, unused_imports)]
use crate::dlt::*;

fn seed() -> u64 {
    std::env::var("VERIF_SEED").ok().and_then(|s| s.parse().ok()).unwrap_or(0)
}
struct Rng(u64);
impl Rng {
    fn next(&mut self) -> u64 {
        // splitmix64
        self.0 = self.0.wrapping_add(0x9E3779B97F4A7C15);
        let mut z = self.0;
        z = (z ^ (z >> 30)).wrapping_mul(0xBF58476D1CE4E5B9);
        z = (z ^ (z >> 27)).wrapping_mul(0x94D049BB133111EB);
        z ^ (z >> 31)
    }
}

fn u64_candidates(consts: &[u64], limit: u64) -> Vec<u64> {
    let mut v = vec![0u64, 1, 2, limit, limit.saturating_sub(1)];
    for c in consts {
        for d in [0u64, 1, 2] {
            v.push(c.saturating_sub(d));
            v.push(c.saturating_add(d));
            v.push(c.saturating_mul(2).saturating_add(d));
        }
    }
    let mut r = Rng(seed());
    for _ in 0..2000 {
        v.push(r.next() % (limit.saturating_add(1).max(1)));
    }
    v.retain(|x| *x <= limit);
    v
}

fn report(f: &str, input: String, got: String) -> ! {
    println!("PROBE-FAIL {} input={} got={}", f, input, got);
    panic!("probe found a failing input");
}

#[test]
fn probe_from_us() {
    let limit = (u32::MAX as u64) * 1_000_000 + 999_999;
    for us in u64_candidates(&[1000, 1_000_000, 4295, 4294, 4_294_967], limit) {
        let r = std::panic::catch_unwind(|| DltTimeStamp::from_us(us));
        match r {
            Err(_) => report("DltTimeStamp::from_us", format!("us={}", us), "panic".into()),
            Ok(ts) => {
                if !(ts.microseconds < 1_000_000
                    && ts.seconds as u128 * 1_000_000 + ts.microseconds as u128 == us as u128)
                {
                    report(
                        "DltTimeStamp::from_us",
                        format!("us={}", us),
                        format!("seconds={} microseconds={}", ts.seconds, ts.microseconds),
                    );
                }
            }
        }
    }
}

#[test]
fn probe_from_ms() {
    let limit = (u32::MAX as u64) * 1000 + 999;
    for ms in u64_candidates(&[1000, 1_000_000, 4295, 4294, 4_294_967], limit) {
        let r = std::panic::catch_unwind(|| DltTimeStamp::from_ms(ms));
        match r {
            Err(_) => report("DltTimeStamp::from_ms", format!("ms={}", ms), "panic".into()),
            Ok(ts) => {
                if !(ts.microseconds < 1_000_000
                    && ts.seconds as u128 * 1_000_000 + ts.microseconds as u128 == ms as u128 * 1000)
                {
                    report(
                        "DltTimeStamp::from_ms",
                        format!("ms={}", ms),
                        format!("seconds={} microseconds={}", ts.seconds, ts.microseconds),
                    );
                }
            }
        }
    }
}

fn hex(b: &[u8]) -> String {
    b.iter().map(|x| format!("{:02x}", x)).collect::<Vec<_>>().join("")
}

/// C04 postcondition of the message parser on shaped buffers in which the declared length LEN,
/// the argument count NOAR and the payload bytes are independent of each other.
#[test]
fn probe_dlt_message_intern() {
    use crate::parse::{dlt_message, ParsedMessage};
    let mut rng = Rng(seed());
    let msins: [u8; 6] = [0x41, 0x40, 0x26, 0x27, 0x25, 0x35];
    let mut tried = 0u64;
    for with_storage in [false, true] {
        for flags in 0u8..32 {
            for msin in msins {
                for noar in 0u8..3 {
                    for extra in 0usize..10 {
                        let htyp = (1u8 << 5) | (flags & 0x1F);
                        let ueh = htyp & 1 != 0;
                        let mut headers = 4usize;
                        for bit in [0x04u8, 0x08, 0x10] {
                            if htyp & bit != 0 {
                                headers += 4;
                            }
                        }
                        if ueh {
                            headers += 10;
                        }
                        let len = headers + extra;
                        let mut buf: Vec<u8> = Vec::new();
                        if with_storage {
                            buf.extend_from_slice(b"DLT\x01");
                            buf.extend_from_slice(&[1, 2, 3, 4, 5, 6, 7, 8]);
                            buf.extend_from_slice(b"ECU\0");
                        }
                        let s = buf.len();
                        buf.push(htyp);
                        buf.push(7);
                        buf.extend_from_slice(&(len as u16).to_be_bytes());
                        while buf.len() < s + headers - if ueh { 10 } else { 0 } {
                            buf.push(b'A' + (buf.len() % 7) as u8);
                        }
                        if ueh {
                            buf.push(msin);
                            buf.push(noar);
                            buf.extend_from_slice(b"APP\0CTX\0");
                        }
                        // payload area: one well-formed U8 argument (type info UINT|TYLE=1, value) in
                        // the message byte order, then pseudo-random bytes
                        let big = htyp & 0x02 != 0;
                        let ti: u32 = 0x41;
                        buf.extend_from_slice(&(if big { ti.to_be_bytes() } else { ti.to_le_bytes() }));
                        buf.push(0x2A);
                        for _ in 0..12 {
                            buf.push((rng.next() & 0xFF) as u8);
                        }
                        tried += 1;
                        let total = buf.len();
                        let b2 = buf.clone();
                        let r = std::panic::catch_unwind(move || match dlt_message(&b2, None, with_storage) {
                            Ok((rest, ParsedMessage::Item(_))) => Some((rest.len(), 0usize, 0u8)),
                            Ok((rest, ParsedMessage::FilteredOut(n))) => Some((rest.len(), n, 1)),
                            Ok((rest, ParsedMessage::Invalid)) => Some((rest.len(), 0, 2)),
                            Err(_) => None,
                        });
                        match r {
                            Err(_) => report("dlt_message_intern", format!("with_storage={} bytes={}", with_storage, hex(&buf)), "panic".into()),
                            Ok(Some((rest_len, _n, kind))) => {
                                let want = total - (s + len);
                                if kind == 2 || rest_len != want || s + len > total {
                                    report(
                                        "dlt_message_intern",
                                        format!("with_storage={} LEN={} headers={} NOAR={} bytes={}", with_storage, len, headers, noar, hex(&buf)),
                                        format!("Ok with {} bytes left, the declared message ends {} bytes before the end of the buffer (kind {})", rest_len, want, kind),
                                    );
                                }
                            }
                            Ok(None) => {}
                        }
                    }
                }
            }
        }
    }
    println!("probe_dlt_message_intern: {} shaped buffers, no failing input", tried);
}
