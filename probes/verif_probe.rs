//! Replay probes (see lib/probes.py): native tests against the real code, injected into a
//! scratch copy as `#[cfg(test)] mod verif_probe;`. Each probe checks the postcondition that
//! Verus failed to prove on boundary values and VERIF_SEED-seeded pseudo-random values and
//! prints `PROBE-FAIL <function> input=.. got=..` for the first input that breaks it.
#![allow(dead_code, unused_imports)]
use crate::dlt::*;

fn seed() -> u64 {
    std::env::var("VERIF_SEED").ok().and_then(|s| s.parse().ok()).unwrap_or(0)
}
struct Rng(u64);
impl Rng {
    fn next(&mut self) -> u64 {
        // splitmix64
        self.0 = self.0.wrapping_add(0x9E3779B97F4A7C15);
        let mut z = self.0;
        z = (z ^ (z >> 30)).wrapping_mul(0xBF58476D1CE4E5B9);
        z = (z ^ (z >> 27)).wrapping_mul(0x94D049BB133111EB);
        z ^ (z >> 31)
    }
}

fn u64_candidates(consts: &[u64], limit: u64) -> Vec<u64> {
    let mut v = vec![0u64, 1, 2, limit, limit.saturating_sub(1)];
    for c in consts {
        for d in [0u64, 1, 2] {
            v.push(c.saturating_sub(d));
            v.push(c.saturating_add(d));
            v.push(c.saturating_mul(2).saturating_add(d));
        }
    }
    let mut r = Rng(seed());
    for _ in 0..2000 {
        v.push(r.next() % (limit.saturating_add(1).max(1)));
    }
    v.retain(|x| *x <= limit);
    v
}

fn report(f: &str, input: String, got: String) -> ! {
    println!("PROBE-FAIL {} input={} got={}", f, input, got);
    panic!("probe found a failing input");
}

#[test]
fn probe_from_us() {
    let limit = (u32::MAX as u64) * 1_000_000 + 999_999;
    for us in u64_candidates(&[1000, 1_000_000, 4295, 4294, 4_294_967], limit) {
        let r = std::panic::catch_unwind(|| DltTimeStamp::from_us(us));
        match r {
            Err(_) => report("DltTimeStamp::from_us", format!("us={}", us), "panic".into()),
            Ok(ts) => {
                if !(ts.microseconds < 1_000_000
                    && ts.seconds as u128 * 1_000_000 + ts.microseconds as u128 == us as u128)
                {
                    report(
                        "DltTimeStamp::from_us",
                        format!("us={}", us),
                        format!("seconds={} microseconds={}", ts.seconds, ts.microseconds),
                    );
                }
            }
        }
    }
}

#[test]
fn probe_from_ms() {
    let limit = (u32::MAX as u64) * 1000 + 999;
    for ms in u64_candidates(&[1000, 1_000_000, 4295, 4294, 4_294_967], limit) {
        let r = std::panic::catch_unwind(|| DltTimeStamp::from_ms(ms));
        match r {
            Err(_) => report("DltTimeStamp::from_ms", format!("ms={}", ms), "panic".into()),
            Ok(ts) => {
                if !(ts.microseconds < 1_000_000
                    && ts.seconds as u128 * 1_000_000 + ts.microseconds as u128 == ms as u128 * 1000)
                {
                    report(
                        "DltTimeStamp::from_ms",
                        format!("ms={}", ms),
                        format!("seconds={} microseconds={}", ts.seconds, ts.microseconds),
                    );
                }
            }
        }
    }
}
