//! vx — mechanical extraction / injection tool for the contract-based checks in /verif.
//!
//! `vx extract`  parses the *current* sources of the crate under check with `syn`, selects the
//!               items named in a unit file, and prints a single-file Verus crate in which every
//!               selected function keeps its body token-for-token; only the edits listed in
//!               DESIGN.md §2.2 are applied (attributes dropped, visibility `pub`, contract text
//!               spliced between signature and body, loop specs attached by ordinal).
//! `vx inject`   copies the Kani harness module into a scratch copy of the crate, appends
//!               `#[cfg(kani)] mod verif_kani;` to lib.rs and puts `#[cfg_attr(kani, kani::…)]`
//!               contract attributes above the functions named in the contracts file.
//!
//! Exit codes: 0 ok, 3 lost anchor (a selected item no longer exists), 4 usage / IO / parse error.

use proc_macro2::{Delimiter, Spacing, TokenStream, TokenTree};
use quote::ToTokens;
use serde::Deserialize;
use std::collections::BTreeMap;
use std::fmt::Write as _;
use std::path::{Path, PathBuf};

#[derive(Deserialize, Debug)]
struct Unit {
    name: String,
    #[serde(default)]
    prelude: Vec<String>,
    /// names switched on for `//#if NAME` / `//#else` / `//#endif` blocks of the prelude files
    #[serde(default)]
    defines: Vec<String>,
    #[serde(default)]
    code_header: String,
    #[serde(default)]
    code_footer: String,
    #[serde(default)]
    item: Vec<ItemSel>,
    #[serde(default)]
    func: Vec<FuncSel>,
}

#[derive(Deserialize, Debug)]
struct ItemSel {
    file: String,
    select: String,
    #[serde(default)]
    derive: Option<Vec<String>>,
    /// optional text put in front of the item (e.g. a verifier attribute)
    #[serde(default)]
    prefix: String,
    /// enums only: emit the variants without their explicit discriminant values (`A = 8` -> `A`).
    /// For units that never use the numeric value of a variant; works around a Verus front-end
    /// error ("discriminant value `0` assigned more than once") seen in some units.
    #[serde(default)]
    drop_discriminants: bool,
}

#[derive(Deserialize, Debug)]
struct FuncSel {
    file: String,
    select: String,
    #[serde(default = "default_mode")]
    mode: String,
    #[serde(default = "default_ret")]
    ret: String,
    #[serde(default)]
    contract: String,
    /// take the contract text from another unit file: "<unit>.toml#<select>" (an ASSUMED callee
    /// then carries exactly the contract that the other unit VERIFIES for it)
    #[serde(default)]
    contract_ref: String,
    #[serde(default)]
    loop_spec: Vec<LoopSpec>,
    /// contracts for fn items nested in the body (spliced between their signature and body)
    #[serde(default)]
    nested: Vec<NestedSpec>,
    /// optional text put in front of the function (e.g. a verifier attribute)
    #[serde(default)]
    prefix: String,
    /// mode = "assume" only: placeholder body of the external_body function (default
    /// `unimplemented!()`; functions returning `impl Fn` need a closure expression to type-check)
    #[serde(default)]
    assume_body: String,
}
fn default_mode() -> String {
    "verify".into()
}
fn default_ret() -> String {
    "r".into()
}

#[derive(Deserialize, Debug)]
struct LoopSpec {
    ordinal: usize,
    text: String,
    /// `for` loops only: ghost name of the iterator (Verus syntax `for x in NAME: expr`), so
    /// that the invariant can refer to the position; an annotation, not executable code
    #[serde(default)]
    iter_name: String,
}

#[derive(Deserialize, Debug, Clone)]
struct NestedSpec {
    name: String,
    text: String,
}

#[derive(Deserialize, Debug)]
struct Contracts {
    #[serde(default)]
    contract: Vec<KContract>,
}
#[derive(Deserialize, Debug)]
struct KContract {
    file: String,
    select: String,
    attrs: Vec<String>,
}

fn die(code: i32, msg: String) -> ! {
    eprintln!("vx: {}", msg);
    std::process::exit(code)
}

// ---------------------------------------------------------------------------------------------
// token printing
// ---------------------------------------------------------------------------------------------

/// Print a token stream, dropping every attribute (`#[..]` / `#![..]`), turning restricted
/// visibilities (`pub(crate)`, `pub(super)`, `pub(in ..)`) into `pub`, one statement per line.
/// `dropped` collects the text of each dropped attribute.
fn print_tokens(ts: TokenStream, out: &mut String, indent: usize, dropped: &mut Vec<String>) {
    let toks: Vec<TokenTree> = ts.into_iter().collect();
    let mut i = 0;
    while i < toks.len() {
        match &toks[i] {
            TokenTree::Punct(p) if p.as_char() == '#' => {
                // attribute?
                let mut j = i + 1;
                if let Some(TokenTree::Punct(q)) = toks.get(j) {
                    if q.as_char() == '!' {
                        j += 1;
                    }
                }
                if let Some(TokenTree::Group(g)) = toks.get(j) {
                    if g.delimiter() == Delimiter::Bracket {
                        dropped.push(attr_head(&g.stream()));
                        i = j + 1;
                        continue;
                    }
                }
                out.push_str("# ");
                i += 1;
            }
            TokenTree::Ident(id) if id == "pub" => {
                out.push_str("pub ");
                if let Some(TokenTree::Group(g)) = toks.get(i + 1) {
                    if g.delimiter() == Delimiter::Parenthesis {
                        let s = g.stream().to_string();
                        if s == "crate" || s == "super" || s == "self" || s.starts_with("in ") {
                            i += 2;
                            continue;
                        }
                    }
                }
                i += 1;
            }
            TokenTree::Ident(id) => {
                let _ = write!(out, "{} ", id);
                i += 1;
            }
            TokenTree::Literal(l) => {
                let _ = write!(out, "{} ", l);
                i += 1;
            }
            TokenTree::Punct(p) => {
                out.push(p.as_char());
                if p.spacing() == Spacing::Alone {
                    out.push(' ');
                }
                if p.as_char() == ';' {
                    newline(out, indent);
                }
                i += 1;
            }
            TokenTree::Group(g) => {
                match g.delimiter() {
                    Delimiter::Brace => {
                        out.push('{');
                        newline(out, indent + 1);
                        print_tokens(g.stream(), out, indent + 1, dropped);
                        newline(out, indent);
                        out.push_str("} ");
                    }
                    Delimiter::Parenthesis => {
                        out.push('(');
                        print_tokens(g.stream(), out, indent, dropped);
                        out.push_str(") ");
                    }
                    Delimiter::Bracket => {
                        out.push('[');
                        print_tokens(g.stream(), out, indent, dropped);
                        out.push_str("] ");
                    }
                    Delimiter::None => {
                        print_tokens(g.stream(), out, indent, dropped);
                    }
                }
                i += 1;
            }
        }
    }
}

fn attr_head(ts: &TokenStream) -> String {
    let s = ts.to_string();
    let head: String = s.chars().take(40).collect();
    head
}

fn newline(out: &mut String, indent: usize) {
    // avoid piling up blank lines
    while out.ends_with(' ') {
        out.pop();
    }
    out.push('\n');
    for _ in 0..indent {
        out.push_str("    ");
    }
}

fn tokens_to_string(ts: TokenStream, indent: usize, dropped: &mut Vec<String>) -> String {
    let mut s = String::new();
    print_tokens(ts, &mut s, indent, dropped);
    s
}

fn norm(ts: impl ToTokens) -> String {
    ts.to_token_stream().to_string().replace(' ', "")
}

fn fnv(s: &str) -> String {
    let mut h: u64 = 0xcbf29ce484222325;
    for b in s.bytes() {
        h ^= b as u64;
        h = h.wrapping_mul(0x100000001b3);
    }
    format!("{:016x}", h)
}

// ---------------------------------------------------------------------------------------------
// selection
// ---------------------------------------------------------------------------------------------

enum Found<'a> {
    FreeFn(&'a syn::ItemFn),
    Method(&'a syn::ItemImpl, &'a syn::ImplItemFn),
    Item(&'a syn::Item),
}

/// Selector grammar:
///   `fn NAME`                         free function (any inline module depth)
///   `TYPE::NAME`                      method of an inherent impl
///   `impl TRAIT for TYPE::NAME`       method of a trait impl (TRAIT / TYPE compared without spaces)
///   `struct NAME` | `enum NAME` | `const NAME` | `type NAME` | `trait NAME`
fn find<'a>(items: &'a [syn::Item], sel: &str) -> Option<Found<'a>> {
    let sel = sel.trim();
    for it in items {
        match it {
            syn::Item::Mod(m) => {
                if let Some((_, inner)) = &m.content {
                    if let Some(f) = find(inner, sel) {
                        return Some(f);
                    }
                }
            }
            syn::Item::Fn(f) => {
                if let Some(n) = sel.strip_prefix("fn ") {
                    if f.sig.ident == n.trim() {
                        return Some(Found::FreeFn(f));
                    }
                }
            }
            syn::Item::Impl(im) => {
                if let Some(rest) = sel.strip_prefix("impl ") {
                    // impl TRAIT for TYPE::NAME
                    if let Some((_, path, _)) = &im.trait_ {
                        if let Some((tr, tail)) = rest.split_once(" for ") {
                            if let Some((ty, name)) = tail.rsplit_once("::") {
                                if norm(path) == tr.replace(' ', "")
                                    && norm(&im.self_ty) == ty.replace(' ', "")
                                {
                                    for ii in &im.items {
                                        if let syn::ImplItem::Fn(f) = ii {
                                            if f.sig.ident == name.trim() {
                                                return Some(Found::Method(im, f));
                                            }
                                        }
                                    }
                                }
                            }
                        }
                    }
                } else if im.trait_.is_none() && !sel.contains(' ') {
                    if let Some((ty, name)) = sel.rsplit_once("::") {
                        if norm(&im.self_ty) == ty.replace(' ', "") {
                            for ii in &im.items {
                                if let syn::ImplItem::Fn(f) = ii {
                                    if f.sig.ident == name.trim() {
                                        return Some(Found::Method(im, f));
                                    }
                                }
                            }
                        }
                    }
                }
            }
            syn::Item::Struct(s) => {
                if sel.strip_prefix("struct ").map(|n| s.ident == n.trim()) == Some(true) {
                    return Some(Found::Item(it));
                }
            }
            syn::Item::Enum(s) => {
                if sel.strip_prefix("enum ").map(|n| s.ident == n.trim()) == Some(true) {
                    return Some(Found::Item(it));
                }
            }
            syn::Item::Const(s) => {
                if sel.strip_prefix("const ").map(|n| s.ident == n.trim()) == Some(true) {
                    return Some(Found::Item(it));
                }
            }
            syn::Item::Type(s) => {
                if sel.strip_prefix("type ").map(|n| s.ident == n.trim()) == Some(true) {
                    return Some(Found::Item(it));
                }
            }
            syn::Item::Trait(s) => {
                if sel.strip_prefix("trait ").map(|n| s.ident == n.trim()) == Some(true) {
                    return Some(Found::Item(it));
                }
            }
            _ => {}
        }
    }
    None
}

struct Sources {
    root: PathBuf,
    files: BTreeMap<String, syn::File>,
}
impl Sources {
    fn get(&mut self, rel: &str) -> &syn::File {
        if !self.files.contains_key(rel) {
            let p = self.root.join(rel);
            let text = std::fs::read_to_string(&p)
                .unwrap_or_else(|e| die(3, format!("lost anchor: cannot read {}: {}", p.display(), e)));
            let f = syn::parse_file(&text)
                .unwrap_or_else(|e| die(4, format!("cannot parse {}: {}", p.display(), e)));
            self.files.insert(rel.to_string(), f);
        }
        &self.files[rel]
    }
}

// ---------------------------------------------------------------------------------------------
// extract
// ---------------------------------------------------------------------------------------------

fn make_pub_fields(fields: &mut syn::Fields) {
    let p: syn::Visibility = syn::parse_quote!(pub);
    match fields {
        syn::Fields::Named(n) => {
            for f in n.named.iter_mut() {
                f.vis = p.clone();
            }
        }
        syn::Fields::Unnamed(n) => {
            for f in n.unnamed.iter_mut() {
                f.vis = p.clone();
            }
        }
        syn::Fields::Unit => {}
    }
}

fn derives_of(attrs: &[syn::Attribute]) -> Vec<String> {
    let mut v = vec![];
    for a in attrs {
        if a.path().is_ident("derive") {
            let _ = a.parse_nested_meta(|m| {
                v.push(norm(&m.path));
                Ok(())
            });
        }
    }
    v
}

fn emit_item(it: &syn::Item, sel: &ItemSel, dropped: &mut Vec<String>) -> (String, Vec<String>) {
    let p: syn::Visibility = syn::parse_quote!(pub);
    let mut it = it.clone();
    let attrs: Vec<syn::Attribute> = match &mut it {
        syn::Item::Struct(s) => {
            s.vis = p;
            make_pub_fields(&mut s.fields);
            std::mem::take(&mut s.attrs)
        }
        syn::Item::Enum(s) => {
            s.vis = p;
            if sel.drop_discriminants {
                for v in s.variants.iter_mut() {
                    v.discriminant = None;
                }
            }
            std::mem::take(&mut s.attrs)
        }
        syn::Item::Const(s) => {
            s.vis = p;
            std::mem::take(&mut s.attrs)
        }
        syn::Item::Type(s) => {
            s.vis = p;
            std::mem::take(&mut s.attrs)
        }
        syn::Item::Trait(s) => {
            s.vis = p;
            std::mem::take(&mut s.attrs)
        }
        _ => vec![],
    };
    let have = derives_of(&attrs);
    let keep: Vec<String> = match &sel.derive {
        Some(d) => d.clone(),
        None => {
            let mut k = vec![];
            if have.iter().any(|x| x == "Clone") && have.iter().any(|x| x == "Copy") {
                k.push("Clone".to_string());
                k.push("Copy".to_string());
            }
            for n in ["PartialEq", "Eq", "PartialOrd"] {
                if have.iter().any(|x| x == n) {
                    k.push(n.to_string());
                }
            }
            k
        }
    };
    for a in &attrs {
        dropped.push(attr_head(&a.meta.to_token_stream()));
    }
    let mut s = String::new();
    s.push_str(&sel.prefix);
    if !sel.prefix.is_empty() {
        s.push('\n');
    }
    if !keep.is_empty() && matches!(it, syn::Item::Struct(_) | syn::Item::Enum(_)) {
        let _ = writeln!(s, "#[derive({})]", keep.join(", "));
    }
    s.push_str(&tokens_to_string(it.to_token_stream(), 0, dropped));
    s.push('\n');
    (s, keep)
}

/// Mark loops in a block with marker statements (by ordinal in source order), print, then
/// replace the markers with the loop spec text. Loops without a spec are left untouched.
struct LoopMarker {
    next: usize,
    wanted: Vec<usize>,
    named: Vec<usize>,
}
impl syn::visit_mut::VisitMut for LoopMarker {
    fn visit_expr_mut(&mut self, e: &mut syn::Expr) {
        if let syn::Expr::ForLoop(w) = e {
            if self.named.contains(&self.next) {
                let id = syn::Ident::new(&format!("__vx_iter_{}", self.next), proc_macro2::Span::call_site());
                let orig = w.expr.clone();
                w.expr = Box::new(syn::parse_quote!(#id(#orig)));
            }
        }
        let body: Option<&mut syn::Block> = match e {
            syn::Expr::While(w) => Some(&mut w.body),
            syn::Expr::ForLoop(w) => Some(&mut w.body),
            syn::Expr::Loop(w) => Some(&mut w.body),
            _ => None,
        };
        if let Some(b) = body {
            let ord = self.next;
            self.next += 1;
            if self.wanted.contains(&ord) {
                let id = syn::Ident::new(&format!("__vx_loop_{}", ord), proc_macro2::Span::call_site());
                let st: syn::Stmt = syn::parse_quote!(#id;);
                b.stmts.insert(0, st);
            }
        }
        syn::visit_mut::visit_expr_mut(self, e);
    }
    // nested fn items have their own loop numbering space? No: keep one numbering per selected fn.
}

struct FnParts<'a> {
    sig: &'a syn::Signature,
    block: &'a syn::Block,
}

fn emit_fn(parts: FnParts, sel: &FuncSel, with_pub: bool, indent: usize, dropped: &mut Vec<String>, report: &mut serde_json::Value) -> String {
    let sig = parts.sig;
    let mut s = String::new();
    if !sel.prefix.is_empty() {
        s.push_str(&sel.prefix);
        s.push('\n');
    }
    let external = sel.mode == "assume";
    if external {
        s.push_str("#[verifier::external_body]\n");
    }
    if with_pub {
        s.push_str("pub ");
    }
    if let Some(c) = &sig.constness {
        let _ = write!(s, "{} ", c.to_token_stream());
    }
    if let Some(c) = &sig.asyncness {
        let _ = write!(s, "{} ", c.to_token_stream());
    }
    if let Some(c) = &sig.unsafety {
        let _ = write!(s, "{} ", c.to_token_stream());
    }
    let mut d2 = vec![];
    let _ = write!(s, "fn {}", sig.ident);
    let (_ig, _tg, wc) = sig.generics.split_for_impl();
    if !sig.generics.params.is_empty() {
        let _ = write!(s, "{}", tokens_to_string(sig.generics.to_token_stream(), indent, &mut d2));
    }
    let _ = write!(s, "({})", tokens_to_string(sig.inputs.to_token_stream(), indent, &mut d2));
    if let syn::ReturnType::Type(_, ty) = &sig.output {
        let _ = write!(s, " -> ({}: {})", sel.ret, tokens_to_string(ty.to_token_stream(), indent, &mut d2));
    }
    if let Some(w) = wc {
        let _ = write!(s, " {}", tokens_to_string(w.to_token_stream(), indent, &mut d2));
    }
    s.push('\n');
    if !sel.contract.trim().is_empty() {
        for l in sel.contract.trim().lines() {
            let _ = writeln!(s, "    {}", l);
        }
    }
    let src_body = parts.block.to_token_stream().to_string();
    if external {
        if sel.assume_body.is_empty() {
            s.push_str("{ unimplemented!() }\n");
        } else {
            let _ = writeln!(s, "{{ {} }}", sel.assume_body);
        }
    } else {
        let mut blk = parts.block.clone();
        let wanted: Vec<usize> = sel.loop_spec.iter().map(|l| l.ordinal).collect();
        let named: Vec<usize> = sel.loop_spec.iter().filter(|l| !l.iter_name.is_empty()).map(|l| l.ordinal).collect();
        let mut lm = LoopMarker { next: 0, wanted: wanted.clone(), named };
        syn::visit_mut::VisitMut::visit_block_mut(&mut lm, &mut blk);
        for w in &wanted {
            if *w >= lm.next {
                die(3, format!("lost anchor: loop #{} of {} not found ({} loops)", w, sel.select, lm.next));
            }
        }
        let mut body = tokens_to_string(blk.to_token_stream(), indent, dropped);
        for l in &sel.loop_spec {
            // the marker is the first statement of the loop body: `{\n <indent> __vx_loop_N ;`
            let marker = format!("__vx_loop_{} ;", l.ordinal);
            let pos = body.find(&marker).unwrap_or_else(|| die(4, format!("marker for loop {} vanished", l.ordinal)));
            // find the opening brace before the marker
            let open = body[..pos].rfind('{').unwrap();
            let mut spec = String::new();
            for ln in l.text.trim().lines() {
                let _ = writeln!(spec, "        {}", ln);
            }
            body = format!("{}\n{}{{{}", &body[..open], spec, &body[pos + marker.len()..]);
            if !l.iter_name.is_empty() {
                // `__vx_iter_N ( EXPR )` -> `NAME : EXPR`
                let im = format!("__vx_iter_{} (", l.ordinal);
                let ip = body.find(&im).unwrap_or_else(|| die(4, format!("iterator marker for loop {} vanished", l.ordinal)));
                let start = ip + im.len();
                let mut depth = 1i32;
                let mut end = start;
                for (k, c) in body[start..].char_indices() {
                    if c == '(' { depth += 1; }
                    if c == ')' { depth -= 1; if depth == 0 { end = start + k; break; } }
                }
                body = format!("{}{} : {}{}", &body[..ip], l.iter_name, &body[start..end], &body[end + 1..]);
            }
        }
        for n in &sel.nested {
            // `fn NAME <..> ( params ) [-> T] {`  ->  contract in front of the `{`
            let pat = format!("fn {} ", n.name);
            let fp = body.find(&pat).unwrap_or_else(|| die(3, format!("lost anchor: nested fn {} of {} not found", n.name, sel.select)));
            let open_par = fp + body[fp..].find('(').unwrap();
            let mut depth = 0i32;
            let mut close_par = open_par;
            for (k, c) in body[open_par..].char_indices() {
                if c == '(' { depth += 1; }
                if c == ')' { depth -= 1; if depth == 0 { close_par = open_par + k; break; } }
            }
            let brace = close_par + body[close_par..].find('{').unwrap();
            let mut spec = String::new();
            for ln in n.text.trim().lines() {
                let _ = writeln!(spec, "        {}", ln);
            }
            body = format!("{}\n{}{}", &body[..brace], spec, &body[brace..]);
        }
        // token-for-token check: the emitted body, re-lexed without loop specs, equals the source body
        let emitted_plain = {
            let mut dd = vec![];
            tokens_to_string(parts.block.to_token_stream(), indent, &mut dd)
        };
        let relex: Result<TokenStream, _> = emitted_plain.parse();
        let same = match relex {
            Ok(ts) => {
                let mut dd = vec![];
                let a = tokens_to_string(ts, 0, &mut dd).replace([' ', '\n'], "");
                let b = {
                    let mut d3 = vec![];
                    tokens_to_string(parts.block.to_token_stream(), 0, &mut d3).replace([' ', '\n'], "")
                };
                a == b
            }
            Err(_) => false,
        };
        report["body_roundtrip_identical"] = serde_json::json!(same);
        s.push_str(&body);
        s.push('\n');
    }
    report["body_token_hash"] = serde_json::json!(fnv(&src_body));
    report["mode"] = serde_json::json!(sel.mode);
    report["contract"] = serde_json::json!(sel.contract.trim());
    let st = sig.ident.span().start();
    report["line"] = serde_json::json!(st.line);
    s
}

/// `//#if NAME` / `//#else` / `//#endif` line blocks (no nesting) in prelude (specification) files
fn preprocess(text: &str, defines: &[String]) -> String {
    let mut out = String::new();
    let mut keep = true;
    for l in text.lines() {
        let t = l.trim();
        if let Some(n) = t.strip_prefix("//#if ") {
            keep = defines.iter().any(|d| d == n.trim());
        } else if t == "//#else" {
            keep = !keep;
        } else if t == "//#endif" {
            keep = true;
        } else if keep {
            out.push_str(l);
            out.push('\n');
        }
    }
    out
}

fn cmd_extract(args: &BTreeMap<String, String>) {
    let repo = PathBuf::from(args.get("repo").unwrap_or_else(|| die(4, "missing --repo".into())));
    let unit_path = PathBuf::from(args.get("unit").unwrap_or_else(|| die(4, "missing --unit".into())));
    let out_path = PathBuf::from(args.get("out").unwrap_or_else(|| die(4, "missing --out".into())));
    let specdir = unit_path.parent().unwrap().to_path_buf();
    let unit_text = std::fs::read_to_string(&unit_path).unwrap_or_else(|e| die(4, format!("{}: {}", unit_path.display(), e)));
    let mut unit: Unit = toml::from_str(&unit_text).unwrap_or_else(|e| die(4, format!("{}: {}", unit_path.display(), e)));
    for f in unit.func.iter_mut() {
        if !f.contract_ref.is_empty() {
            let (file, sel) = f.contract_ref.split_once('#').unwrap_or_else(|| die(4, format!("bad contract_ref {}", f.contract_ref)));
            let p = specdir.join(file);
            let t = std::fs::read_to_string(&p).unwrap_or_else(|e| die(4, format!("{}: {}", p.display(), e)));
            let other: Unit = toml::from_str(&t).unwrap_or_else(|e| die(4, format!("{}: {}", p.display(), e)));
            match other.func.iter().find(|g| g.select == sel) {
                Some(g) => f.contract = g.contract.clone(),
                None => die(4, format!("contract_ref {}: no such function in {}", f.contract_ref, file)),
            }
        }
    }
    let mut src = Sources { root: repo, files: BTreeMap::new() };
    for f in unit.item.iter().map(|i| i.file.clone()).chain(unit.func.iter().map(|f| f.file.clone())) {
        src.get(&f);
    }
    let mut out = String::new();
    let _ = writeln!(out, "// GENERATED by vx extract from unit `{}` — do not edit", unit.name);
    out.push_str("#![allow(unused_imports, dead_code, unused_variables, unused_mut, unused_macros, non_snake_case, unreachable_code, unused_parens, unused_braces)]\n");
    for p in &unit.prelude {
        let pp = specdir.join(p);
        let t = std::fs::read_to_string(&pp).unwrap_or_else(|e| die(4, format!("{}: {}", pp.display(), e)));
        let _ = writeln!(out, "// ---- prelude {} ----", p);
        let t = preprocess(&t, &unit.defines);
        out.push_str(&t);
        out.push('\n');
    }
    let mut dropped: Vec<String> = vec![];
    let mut rep_items = vec![];
    let mut rep_funcs = vec![];
    out.push_str("verus! {\npub mod code {\n");
    out.push_str(&unit.code_header);
    out.push('\n');
    for isel in &unit.item {
        let file = &src.files[&isel.file];
        match find(&file.items, &isel.select) {
            Some(Found::Item(it)) => {
                let (s, keep) = emit_item(it, isel, &mut dropped);
                out.push_str(&s);
                rep_items.push(serde_json::json!({"select": isel.select, "file": isel.file, "derive_kept": keep, "discriminants_dropped": isel.drop_discriminants}));
            }
            _ => die(3, format!("lost anchor: item `{}` not found in {}", isel.select, isel.file)),
        }
    }
    // group methods per impl header
    let mut impls: Vec<(String, String, Vec<String>)> = vec![]; // (key, header, fns)
    for fsel in &unit.func {
        let file = &src.files[&fsel.file];
        let mut rep = serde_json::json!({"select": fsel.select, "file": fsel.file});
        match find(&file.items, &fsel.select) {
            Some(Found::FreeFn(f)) => {
                let s = emit_fn(FnParts { sig: &f.sig, block: &f.block }, fsel, true, 0, &mut dropped, &mut rep);
                out.push_str(&s);
            }
            Some(Found::Method(im, f)) => {
                let is_trait = im.trait_.is_some();
                let mut d2 = vec![];
                let mut header = String::from("impl");
                if !im.generics.params.is_empty() {
                    header.push_str(&tokens_to_string(im.generics.to_token_stream(), 0, &mut d2));
                }
                header.push(' ');
                if let Some((_, path, _)) = &im.trait_ {
                    header.push_str(&tokens_to_string(path.to_token_stream(), 0, &mut d2));
                    header.push_str(" for ");
                }
                header.push_str(&tokens_to_string(im.self_ty.to_token_stream(), 0, &mut d2));
                if let Some(w) = &im.generics.where_clause {
                    header.push_str(&tokens_to_string(w.to_token_stream(), 0, &mut d2));
                }
                let key = header.replace(' ', "");
                let s = emit_fn(FnParts { sig: &f.sig, block: &f.block }, fsel, !is_trait, 1, &mut dropped, &mut rep);
                if let Some(e) = impls.iter_mut().find(|e| e.0 == key) {
                    e.2.push(s);
                } else {
                    let mut pre = vec![];
                    if is_trait {
                        // associated types / consts of the trait impl are kept
                        for ii in &im.items {
                            match ii {
                                syn::ImplItem::Fn(_) => {}
                                other => pre.push(tokens_to_string(other.to_token_stream(), 1, &mut dropped)),
                            }
                        }
                    }
                    pre.push(s);
                    impls.push((key, header, pre));
                }
            }
            _ => die(3, format!("lost anchor: function `{}` not found in {}", fsel.select, fsel.file)),
        }
        rep_funcs.push(rep);
    }
    for (_, header, fns) in &impls {
        let _ = writeln!(out, "{} {{", header);
        for f in fns {
            out.push_str(f);
            out.push('\n');
        }
        out.push_str("}\n");
    }
    out.push_str(&unit.code_footer);
    out.push_str("\n} // mod code\n} // verus!\nfn main() {}\n");
    std::fs::write(&out_path, &out).unwrap_or_else(|e| die(4, format!("{}: {}", out_path.display(), e)));
    dropped.sort();
    dropped.dedup();
    let report = serde_json::json!({
        "unit": unit.name,
        "items": rep_items,
        "functions": rep_funcs,
        "dropped_attributes": dropped,
        "edits": ["attributes dropped", "visibility -> pub", "derive reduced", "contract spliced", "loop specs by ordinal", "assumed callees as external_body"],
    });
    if let Some(r) = args.get("report") {
        std::fs::write(r, serde_json::to_string_pretty(&report).unwrap()).unwrap();
    }
}

// ---------------------------------------------------------------------------------------------
// inject
// ---------------------------------------------------------------------------------------------

fn copy_dir(from: &Path, to: &Path) {
    std::fs::create_dir_all(to).unwrap();
    for e in std::fs::read_dir(from).unwrap() {
        let e = e.unwrap();
        let p = e.path();
        let t = to.join(e.file_name());
        if p.is_dir() {
            copy_dir(&p, &t);
        } else {
            std::fs::copy(&p, &t).unwrap();
        }
    }
}

fn cmd_inject(args: &BTreeMap<String, String>) {
    let krate = PathBuf::from(args.get("crate").unwrap_or_else(|| die(4, "missing --crate".into())));
    let harness = PathBuf::from(args.get("harness-dir").unwrap_or_else(|| die(4, "missing --harness-dir".into())));
    let mut report = vec![];
    if let Some(cpath) = args.get("contracts") {
        let text = std::fs::read_to_string(cpath).unwrap_or_else(|e| die(4, format!("{}: {}", cpath, e)));
        let cs: Contracts = toml::from_str(&text).unwrap_or_else(|e| die(4, format!("{}: {}", cpath, e)));
        // group by file; insert bottom-up so that line numbers stay valid
        let mut by_file: BTreeMap<String, Vec<(usize, Vec<String>, String)>> = BTreeMap::new();
        let mut src = Sources { root: krate.clone(), files: BTreeMap::new() };
        for c in &cs.contract {
            let file = src.get(&c.file);
            let line = match find(&file.items, &c.select) {
                Some(Found::FreeFn(f)) => first_line(&f.attrs, &f.vis, &f.sig),
                Some(Found::Method(_, f)) => first_line(&f.attrs, &f.vis, &f.sig),
                _ => die(3, format!("lost anchor: function `{}` not found in {}", c.select, c.file)),
            };
            by_file.entry(c.file.clone()).or_default().push((line, c.attrs.clone(), c.select.clone()));
        }
        for (file, mut ins) in by_file {
            let p = krate.join(&file);
            let text = std::fs::read_to_string(&p).unwrap();
            let mut lines: Vec<String> = text.lines().map(|s| s.to_string()).collect();
            ins.sort_by(|a, b| b.0.cmp(&a.0));
            for (line, attrs, select) in ins {
                let idx = line - 1;
                let ind: String = lines[idx].chars().take_while(|c| c.is_whitespace()).collect();
                for (k, a) in attrs.iter().enumerate() {
                    lines.insert(idx + k, format!("{}#[cfg_attr(kani, {})]", ind, a));
                }
                report.push(serde_json::json!({"file": file, "select": select, "line": line, "attrs": attrs}));
            }
            std::fs::write(&p, lines.join("\n") + "\n").unwrap();
        }
    }
    copy_dir(&harness, &krate.join("src").join("verif_kani"));
    // harnesses for PRIVATE functions: `in_<module>.rs` is mounted as a child module of
    // src/<module>.rs (`#[cfg(kani)] #[path = "verif_kani/in_<module>.rs"] mod verif_in;`), so it
    // sees the private items of that module through `use super::*`
    let mut mounted = vec![];
    for e in std::fs::read_dir(&harness).unwrap() {
        let name = e.unwrap().file_name().to_string_lossy().to_string();
        if let Some(m) = name.strip_prefix("in_").and_then(|n| n.strip_suffix(".rs")) {
            let target = krate.join("src").join(format!("{}.rs", m));
            let mut t = std::fs::read_to_string(&target)
                .unwrap_or_else(|e| die(3, format!("lost anchor: {}: {}", target.display(), e)));
            t.push_str(&format!("\n#[cfg(kani)]\n#[path = \"verif_kani/{}\"]\nmod verif_in;\n", name));
            std::fs::write(&target, t).unwrap();
            mounted.push(serde_json::json!({"module": m, "file": name}));
        }
    }
    let lib = krate.join("src").join("lib.rs");
    let mut t = std::fs::read_to_string(&lib).unwrap_or_else(|e| die(3, format!("lost anchor: {}: {}", lib.display(), e)));
    t.push_str("\n#[cfg(kani)]\nmod verif_kani;\n");
    std::fs::write(&lib, t).unwrap();
    if let Some(r) = args.get("report") {
        std::fs::write(r, serde_json::to_string_pretty(&serde_json::json!({"contracts": report, "mounted": mounted})).unwrap()).unwrap();
    }
}

fn first_line(attrs: &[syn::Attribute], vis: &syn::Visibility, sig: &syn::Signature) -> usize {
    use syn::spanned::Spanned;
    let mut l = sig.span().start().line;
    if let syn::Visibility::Public(p) = vis {
        l = l.min(p.span().start().line);
    }
    if let syn::Visibility::Restricted(r) = vis {
        l = l.min(r.pub_token.span().start().line);
    }
    for a in attrs {
        l = l.min(a.span().start().line);
    }
    l
}

/// `vx list --repo DIR --file REL` prints every function selector of a file (for spec authors).
fn cmd_list(args: &BTreeMap<String, String>) {
    let repo = PathBuf::from(args.get("repo").unwrap());
    let mut src = Sources { root: repo, files: BTreeMap::new() };
    let f = src.get(args.get("file").unwrap());
    fn walk(items: &[syn::Item]) {
        for it in items {
            match it {
                syn::Item::Mod(m) => {
                    if let Some((_, inner)) = &m.content {
                        walk(inner)
                    }
                }
                syn::Item::Fn(f) => println!("fn {}", f.sig.ident),
                syn::Item::Impl(im) => {
                    for ii in &im.items {
                        if let syn::ImplItem::Fn(f) = ii {
                            match &im.trait_ {
                                Some((_, p, _)) => println!("impl {} for {}::{}", norm(p), norm(&im.self_ty), f.sig.ident),
                                None => println!("{}::{}", norm(&im.self_ty), f.sig.ident),
                            }
                        }
                    }
                }
                _ => {}
            }
        }
    }
    walk(&f.items);
}

fn main() {
    let argv: Vec<String> = std::env::args().collect();
    if argv.len() < 2 {
        die(4, "usage: vx extract|inject|list --key value ...".into());
    }
    let mut args = BTreeMap::new();
    let mut i = 2;
    while i + 1 < argv.len() {
        if let Some(k) = argv[i].strip_prefix("--") {
            args.insert(k.to_string(), argv[i + 1].clone());
        }
        i += 2;
    }
    match argv[1].as_str() {
        "extract" => cmd_extract(&args),
        "inject" => cmd_inject(&args),
        "list" => cmd_list(&args),
        _ => die(4, "unknown command".into()),
    }
}
