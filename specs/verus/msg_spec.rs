// Specification of message framing over the input BYTES (from the DLT layout quoted in
// properties C02/C04): where a message starts, which length it declares, where it ends.
// Used by unit c04_message (dlt_message_intern, dlt_consume_msg, skip_storage_header).
verus! {
pub mod mspec {
    use vstd::prelude::*;
    use crate::code::*;
    use crate::lspec::*;
    use crate::nom::*;

    /// big-endian 16-bit LEN field of the standard header that starts at `off`
    pub open spec fn len_field(s: Seq<u8>, off: int) -> int {
        (s[off + 2] as int) * 256 + (s[off + 3] as int)
    }

    /// 'D' 'L' 'T' 0x01 at position k
    pub open spec fn pattern_at(s: Seq<u8>, k: int) -> bool {
        0 <= k && k + 4 <= s.len() && s[k] == 0x44 && s[k + 1] == 0x4C && s[k + 2] == 0x54 && s[k + 3] == 0x01
    }

    /// k is the first occurrence of the storage-header pattern
    pub open spec fn first_pattern(s: Seq<u8>, k: int) -> bool {
        pattern_at(s, k) && forall|j: int| 0 <= j < k ==> !pattern_at(s, j)
    }

    pub open spec fn no_pattern(s: Seq<u8>) -> bool {
        forall|j: int| !#[trigger] pattern_at(s, j)
    }

    /// a piece of a piece is a piece of the whole (flattens the nested sub-slices the parser makes)
    pub broadcast proof fn lemma_subrange_of_suffix(s: Seq<u8>, a: int, b: int, c: int, d: int)
        requires
            0 <= a <= b <= s.len(),
            0 <= c <= d <= b - a,
        ensures
            #[trigger] s.subrange(a, b).subrange(c, d) == s.subrange(a + c, a + d),
    {
        assert(s.subrange(a, b).subrange(c, d) =~= s.subrange(a + c, a + d));
    }

    /// position of the first pattern occurrence (meaningful when there is one)
    pub open spec fn pat_pos(s: Seq<u8>) -> int {
        choose|k: int| first_pattern(s, k)
    }

    /// the first occurrence is unique, so `pat_pos` is it
    pub broadcast proof fn lemma_first_pattern_unique(s: Seq<u8>, k: int)
        requires
            #[trigger] first_pattern(s, k),
        ensures
            pat_pos(s) == k,
    {
        let c = pat_pos(s);
        assert(first_pattern(s, c));
        if c < k {
            assert(pattern_at(s, c));
        }
        if k < c {
            assert(pattern_at(s, k));
        }
    }

    // ---- the leaf parsers as FUNCTIONS of their input bytes (uninterpreted): what they return on
    // success. Assumption: the leaf parsers are deterministic functions of the bytes they are
    // given (pure code). The message-level contract states that the returned Message is assembled
    // from exactly these values on exactly these sub-slices; what the values ARE is the business
    // of the Kani harnesses on the leaves (c02_dec_*, c01_arg_*, inp_payload_*).
    pub uninterp spec fn std_of(input: Seq<u8>) -> StandardHeader;
//#if skipper_only
//#else
    pub uninterp spec fn ext_of(input: Seq<u8>) -> ExtendedHeader;
    pub uninterp spec fn sto_of(input: Seq<u8>) -> StorageHeader;
    pub uninterp spec fn payload_of<T>(input: Seq<u8>, verbose: bool, payload_length: u16, arg_cnt: u8, msg_type: Option<MessageType>) -> PayloadContent;
//#endif

    /// Contract of the standard-header parser (ASSUMED in this unit; proved on the real code by
    /// the Kani harnesses c02_dec_std_header (all 2^128 inputs of the maximal header size) and
    /// c02_dec_std_header_truncated (every cut)): decodes HTYP flags, consumes exactly the
    /// standard header, and the header value's overall length equals the LEN field.
    pub open spec fn std_header_post(input: Seq<u8>, r: IResult<&[u8], StandardHeader, DltParseError>) -> bool {
        match r {
            Ok((rest, h)) => {
                &&& input.len() >= 4
                &&& input.len() >= std_len_of(input[0])
                &&& rest@ == input.subrange(std_len_of(input[0]), input.len() as int)
                &&& htyp_matches(&h, input[0])
                &&& hdr_len(&h) == all_len_of(input[0])
                &&& hdr_len(&h) + h.payload_length == len_field(input, 0)
                &&& h == std_of(input)
            },
            Err(Err::Incomplete(NeededE::Size(n))) => {
                // fewer bytes than the standard header needs; the hint never exceeds what is missing
                &&& (input.len() < 4 || input.len() < std_len_of(input[0]))
                &&& (input.len() >= 1 ==> n@ <= std_len_of(input[0]) - input.len())
                &&& (input.len() == 0 ==> n@ <= 4)
            },
            Err(Err::Incomplete(NeededE::Unknown)) => input.len() < 4 || input.len() < std_len_of(input[0]),
            // rejected: the declared length is shorter than the headers it announces
            Err(Err::Error(_)) => input.len() >= 4 && input.len() >= std_len_of(input[0]) && len_field(input, 0) < all_len_of(input[0]),
            Err(Err::Failure(_)) => false,
        }
    }

//#if skipper_only
//#else
    /// Contract of the extended-header parser (ASSUMED; Kani c02_dec_ext_header over all 2^80
    /// inputs + c02_dec_ext_header_truncated): consumes exactly 10 bytes, never rejects.
    pub open spec fn ext_header_post(input: Seq<u8>, r: IResult<&[u8], ExtendedHeader, DltParseError>) -> bool {
        match r {
            Ok((rest, e)) => input.len() >= 10 && rest@ == input.subrange(10, input.len() as int) && e == ext_of(input),
            Err(Err::Incomplete(NeededE::Size(n))) => input.len() < 10 && n@ <= 10 - input.len(),
            Err(Err::Incomplete(NeededE::Unknown)) => input.len() < 10,
            Err(_) => false,
        }
    }

    /// Contract of the storage-header parser (ASSUMED; Kani c02_dec_sto_header, c06_forward_*,
    /// c02_dec_sto_header_truncated): skips to the first pattern, consumes 16 bytes from there.
    pub open spec fn sto_header_post(input: Seq<u8>, r: IResult<&[u8], Option<(StorageHeader, u64)>, DltParseError>) -> bool {
        match r {
            Ok((rest, Some((sh, shift)))) => {
                &&& first_pattern(input, shift as int)
                &&& shift as int + 16 <= input.len()
                &&& rest@ == input.subrange(shift as int + 16, input.len() as int)
                &&& sh == sto_of(input)
            },
            Ok((rest, None)) => input.len() >= 16 && no_pattern(input) && rest@.len() == 0,
            Err(Err::Incomplete(NeededE::Size(n))) => {
                // the pattern was found but fewer than 16 bytes follow it
                first_pattern(input, pat_pos(input)) && pat_pos(input) + 16 > input.len() && n@ <= pat_pos(input) + 16 - input.len()
            },
            Err(Err::Incomplete(NeededE::Unknown)) => input.len() < 16 || (first_pattern(input, pat_pos(input)) && pat_pos(input) + 16 > input.len()),
            Err(_) => false,
        }
    }

//#endif
    /// where the standard header of the message that `dlt_message(input, _, with_storage)`
    /// looks at starts: after the junk in front of the first pattern and the 16-byte storage
    /// header, or at 0
    pub open spec fn msg_off(input: Seq<u8>, with_storage: bool) -> int {
        if with_storage { pat_pos(input) + 16 } else { 0 }
    }

    /// C04: a successful parse ends exactly at start + LEN, a strict suffix of the input
    pub open spec fn consumed_exactly(input: Seq<u8>, with_storage: bool, rest: Seq<u8>) -> bool {
        let off = msg_off(input, with_storage);
        &&& (with_storage ==> first_pattern(input, pat_pos(input)))
        &&& off + 4 <= input.len()
        &&& len_field(input, off) >= all_len_of(input[off])
        &&& off + len_field(input, off) <= input.len()
        &&& rest == input.subrange(off + len_field(input, off), input.len() as int)
        &&& rest.len() < input.len()
    }

//#if skipper_only
//#else
    /// C01 / C09 glue: the returned message is assembled from exactly what the leaf parsers
    /// return on exactly the sub-slices the layout assigns to them: storage header from the input,
    /// standard header at `off`, extended header right behind it iff UEH, payload = the declared
    /// payload bytes parsed in the byte order of MSBF with the verbose flag / argument count /
    /// message type of the extended header (false / 0 / none without one)
    pub open spec fn assembled(input: Seq<u8>, with_storage: bool, m: Message) -> bool {
        let off = msg_off(input, with_storage);
        let n = input.len() as int;
        let h = std_of(input.subrange(off, n));
        let e = ext_of(input.subrange(off + std_len_of(input[off]), n));
        let pbytes = input.subrange(off + all_len_of(input[off]), off + len_field(input, off));
        let plen = h.payload_length;
        &&& m.header == h
        // presence only: the value is moved out by the unannotated closure `|shs| shs.0`, whose
        // result Verus leaves unspecified (no proof code may be added to the extracted body)
        &&& m.storage_header.is_some() == with_storage
        &&& m.extended_header == (if h.has_extended_header { Some(e) } else { None::<ExtendedHeader> })
        &&& m.payload == (if h.has_extended_header {
                if h.endianness == Endianness::Big { payload_of::<BigEndian>(pbytes, e.verbose, plen, e.argument_count, Some(e.message_type)) }
                else { payload_of::<LittleEndian>(pbytes, e.verbose, plen, e.argument_count, Some(e.message_type)) }
            } else {
                if h.endianness == Endianness::Big { payload_of::<BigEndian>(pbytes, false, plen, 0, None::<MessageType>) }
                else { payload_of::<LittleEndian>(pbytes, false, plen, 0, None::<MessageType>) }
            })
    }

    /// the filter decision is taken on exactly the parsed extended header and ECU id
    pub open spec fn filter_verdict(input: Seq<u8>, with_storage: bool, cfg: Option<&ProcessedDltFilterConfig>) -> bool {
        let off = msg_off(input, with_storage);
        let n = input.len() as int;
        let h = std_of(input.subrange(off, n));
        let e = ext_of(input.subrange(off + std_len_of(input[off]), n));
        let ecu: Option<&String> = match h.ecu_id { Some(s) => Some(&s), None => None };
        if h.has_extended_header {
            crate::fspec::spec_filtered(Some(&e), cfg, ecu)
        } else {
            crate::fspec::spec_filtered(None::<&ExtendedHeader>, cfg, ecu)
        }
    }

//#endif
    /// payload length announced by the bytes: LEN - all headers
    pub open spec fn declared_payload(input: Seq<u8>, with_storage: bool) -> int {
        let off = msg_off(input, with_storage);
        len_field(input, off) - all_len_of(input[off])
    }

    /// the earliest position at which a message extending these bytes can end, seen from the
    /// start `off` of its standard header: nothing readable -> the 4 mandatory bytes; HTYP
    /// readable -> all headers it announces; LEN readable -> max(headers, LEN)
    pub open spec fn earliest_end(input: Seq<u8>, off: int) -> int {
        if input.len() <= off {
            off + 4
        } else if input.len() < off + 4 {
            off + all_len_of(input[off])
        } else if len_field(input, off) >= all_len_of(input[off]) {
            off + len_field(input, off)
        } else {
            off + all_len_of(input[off])
        }
    }

    /// C05, first half: the bytes end before the earliest possible end of the message they
    /// announce (and what is readable of it is not already contradictory: LEN >= headers)
    pub open spec fn ends_early(input: Seq<u8>, with_storage: bool) -> bool {
        let off = msg_off(input, with_storage);
        &&& (with_storage ==> first_pattern(input, pat_pos(input)))
        &&& (input.len() < off + 4 || len_field(input, off) >= all_len_of(input[off]))
        &&& input.len() < earliest_end(input, off)
    }

    /// C05: an `Incomplete` report with a size never asks for more than what is missing up to
    /// the earliest possible end of the message the bytes announce. (With storage header and no
    /// pattern in the input there is no announced message and nothing is claimed.)
    pub open spec fn hint_ok(input: Seq<u8>, with_storage: bool, n: int) -> bool {
        if with_storage {
            no_pattern(input) || (first_pattern(input, pat_pos(input))
                && earliest_end(input, pat_pos(input) + 16) > input.len() && n <= earliest_end(input, pat_pos(input) + 16) - input.len())
        } else {
            earliest_end(input, 0) > input.len() && n <= earliest_end(input, 0) - input.len()
        }
    }
}
}
