// Specification of the payload writer's output (C01 / C02): used by unit c01_payload_writer.
verus! {
pub mod sspec {
    use vstd::prelude::*;
    use crate::code::*;

    /// bytes of a 32-bit / 16-bit value in byte order T (uninterpreted here; that byteorder's
    /// BigEndian / LittleEndian writers produce the most / least significant byte first is the
    /// dependency's contract, exercised on the real crate by the Kani harnesses c02_enc_nwtrace,
    /// c01_msg_write_* and the argument round trips)
    pub uninterp spec fn u32_ser<T>(n: u32) -> Seq<u8>;
    pub uninterp spec fn u16_ser<T>(n: u16) -> Seq<u8>;

    /// the bytes the argument writer produces (uninterpreted here: Kani's c01_arg_* / c01_argp_*)
    pub uninterp spec fn arg_ser<T>(a: Argument) -> Seq<u8>;

    /// verbose payload: the arguments' bytes one after the other, in order
    pub open spec fn args_ser<T>(s: Seq<Argument>) -> Seq<u8> decreases s.len() {
        if s.len() == 0 { Seq::<u8>::empty() } else { args_ser::<T>(s.drop_last()) + arg_ser::<T>(s.last()) }
    }
    /// network-trace payload: per slice the raw type info (bit 10) and the 16-bit length in the
    /// message's byte order, then the slice's bytes; slices in order
    pub open spec fn slices_ser<T>(s: Seq<Vec<u8>>) -> Seq<u8> decreases s.len() {
        if s.len() == 0 { Seq::<u8>::empty() } else {
            slices_ser::<T>(s.drop_last()) + u32_ser::<T>(0x400u32) + u16_ser::<T>(s.last()@.len() as u16) + s.last()@
        }
    }
    pub open spec fn ctrl_code(c: ControlType) -> u8 {
        match c { ControlType::Request => 1u8, ControlType::Response => 2u8, ControlType::Unknown(n) => n }
    }
    /// C01 / C02 (payload writer): what each payload kind serialises to
    pub open spec fn payload_ser<T>(p: PayloadContent) -> Seq<u8> {
        match p {
            PayloadContent::Verbose(args) => args_ser::<T>(args@),
            PayloadContent::NonVerbose(id, bytes) => u32_ser::<T>(id) + bytes@,
            PayloadContent::ControlMsg(c, bytes) => seq![ctrl_code(c)] + bytes@,
            PayloadContent::NetworkTrace(slices) => slices_ser::<T>(slices@),
        }
    }
    pub broadcast proof fn lemma_args_step<T>(s: Seq<Argument>, j: int)
        requires 0 < j <= s.len(),
        ensures #[trigger] args_ser::<T>(s.take(j)) == args_ser::<T>(s.take(j - 1)) + arg_ser::<T>(s[j - 1]),
    {
        assert(s.take(j).drop_last() == s.take(j - 1));
    }
    pub broadcast proof fn lemma_slices_step<T>(s: Seq<Vec<u8>>, j: int)
        requires 0 < j <= s.len(),
        ensures #[trigger] slices_ser::<T>(s.take(j)) == slices_ser::<T>(s.take(j - 1)) + u32_ser::<T>(0x400u32) + u16_ser::<T>(s[j - 1]@.len() as u16) + s[j - 1]@,
    {
        assert(s.take(j).drop_last() == s.take(j - 1));
    }
    pub broadcast proof fn lemma_take_all<A>(s: Seq<A>)
        ensures #[trigger] s.take(s.len() as int) == s,
    {
    }

}
} // verus!
