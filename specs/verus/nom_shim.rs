// ---- nom / std shim: ASSUMED contracts of the dependencies the extracted code calls. ----
// Every item here is an assumption (listed mechanically in the evidence). The contracts of
// take / take_while_m_n / tag / be_uN and of from_utf8 / valid_up_to are *checked* against the
// real nom 7.1.3 and std by the Kani harnesses k_nom_* / c19_zts_* at small sizes (DESIGN §2.4).
verus! {

pub mod nom {
    use vstd::prelude::*;

    /// nom::Needed. The enum is always called `NeededE` in specifications.
    pub enum NeededE {
        Unknown,
        Size(core::num::NonZeroUsize),
    }
//#if needed_mod
    // Units whose extracted code passes `nom::Needed::Size` as a FUNCTION VALUE
    // (`needed.map_or(nom::Needed::Unknown, nom::Needed::Size)` in dlt_message_intern): Verus
    // does not support datatype constructors as function values, so in those units the path
    // `nom::Needed` resolves to a module offering the two constructors as a constant and a
    // function with exact contracts. The extracted text is unchanged.
    #[allow(non_snake_case, non_upper_case_globals)]
    pub mod Needed {
        use vstd::prelude::*;
        pub const Unknown: super::NeededE = super::NeededE::Unknown;
        pub fn Size(n: core::num::NonZeroUsize) -> (r: super::NeededE)
            ensures r == super::NeededE::Size(n),
        {
            super::NeededE::Size(n)
        }
    }
//#else
    pub use self::NeededE as Needed;
//#endif

    /// nom::ToUsize (count arguments of `take`)
    pub trait ToUsize: Sized {
        spec fn to_usize_spec(self) -> usize;
    }
    impl ToUsize for usize { open spec fn to_usize_spec(self) -> usize { self } }
    impl ToUsize for u8 { open spec fn to_usize_spec(self) -> usize { self as usize } }
    impl ToUsize for u16 { open spec fn to_usize_spec(self) -> usize { self as usize } }
    impl ToUsize for u32 { open spec fn to_usize_spec(self) -> usize { self as usize } }

    pub enum Err<E> {
        Incomplete(NeededE),
        Error(E),
        Failure(E),
    }

    pub type IResult<I, O, E> = Result<(I, O), Err<E>>;

    pub mod lib {
        pub mod std {
            pub mod str {
                pub use core::str::{from_utf8, from_utf8_unchecked};
            }
        }
    }


    pub mod sequence {
        use vstd::prelude::*;
        use super::*;

        /// nom::sequence::tuple for 2- and 3-tuples of parsers: runs them in order on what the
        /// previous one left; the first error is the result (ASSUMED; nom 7.1.3 `Tuple::parse`)
        pub trait TupleSpec<'a, O, E>: Sized {
            spec fn tp_req(self) -> bool;
            spec fn tp_post(self, i: &'a [u8], r: IResult<&'a [u8], O, E>) -> bool;
        }
        impl<'a, A, B, OA, OB, E> TupleSpec<'a, (OA, OB), E> for (A, B)
            where A: Fn(&'a [u8]) -> IResult<&'a [u8], OA, E>, B: Fn(&'a [u8]) -> IResult<&'a [u8], OB, E>
        {
            open spec fn tp_req(self) -> bool {
                (forall|i: &'a [u8]| #[trigger] self.0.requires((i,))) && (forall|i: &'a [u8]| #[trigger] self.1.requires((i,)))
            }
            open spec fn tp_post(self, i: &'a [u8], r: IResult<&'a [u8], (OA, OB), E>) -> bool {
                match r {
                    Ok((rest, (a, b))) => exists|i1: &'a [u8]| #![auto] self.0.ensures((i,), Ok((i1, a))) && self.1.ensures((i1,), Ok((rest, b))),
                    Err(e) => self.0.ensures((i,), Err(e)) || exists|i1: &'a [u8], a: OA| #![auto] self.0.ensures((i,), Ok((i1, a))) && self.1.ensures((i1,), Err(e)),
                }
            }
        }
        impl<'a, A, B, C, OA, OB, OC, E> TupleSpec<'a, (OA, OB, OC), E> for (A, B, C)
            where A: Fn(&'a [u8]) -> IResult<&'a [u8], OA, E>, B: Fn(&'a [u8]) -> IResult<&'a [u8], OB, E>, C: Fn(&'a [u8]) -> IResult<&'a [u8], OC, E>
        {
            open spec fn tp_req(self) -> bool {
                (forall|i: &'a [u8]| #[trigger] self.0.requires((i,))) && (forall|i: &'a [u8]| #[trigger] self.1.requires((i,))) && (forall|i: &'a [u8]| #[trigger] self.2.requires((i,)))
            }
            open spec fn tp_post(self, i: &'a [u8], r: IResult<&'a [u8], (OA, OB, OC), E>) -> bool {
                match r {
                    Ok((rest, (a, b, c))) => exists|i1: &'a [u8], i2: &'a [u8]| #![auto] self.0.ensures((i,), Ok((i1, a))) && self.1.ensures((i1,), Ok((i2, b))) && self.2.ensures((i2,), Ok((rest, c))),
                    Err(e) => self.0.ensures((i,), Err(e))
                        || (exists|i1: &'a [u8], a: OA| #![auto] self.0.ensures((i,), Ok((i1, a))) && self.1.ensures((i1,), Err(e)))
                        || (exists|i1: &'a [u8], a: OA, i2: &'a [u8], b: OB| #![auto] self.0.ensures((i,), Ok((i1, a))) && self.1.ensures((i1,), Ok((i2, b))) && self.2.ensures((i2,), Err(e))),
                }
            }
        }
        impl<'a, A, B, C, D, OA, OB, OC, OD, E> TupleSpec<'a, (OA, OB, OC, OD), E> for (A, B, C, D)
            where A: Fn(&'a [u8]) -> IResult<&'a [u8], OA, E>, B: Fn(&'a [u8]) -> IResult<&'a [u8], OB, E>, C: Fn(&'a [u8]) -> IResult<&'a [u8], OC, E>, D: Fn(&'a [u8]) -> IResult<&'a [u8], OD, E>
        {
            open spec fn tp_req(self) -> bool {
                (forall|i: &'a [u8]| #[trigger] self.0.requires((i,))) && (forall|i: &'a [u8]| #[trigger] self.1.requires((i,)))
                    && (forall|i: &'a [u8]| #[trigger] self.2.requires((i,))) && (forall|i: &'a [u8]| #[trigger] self.3.requires((i,)))
            }
            open spec fn tp_post(self, i: &'a [u8], r: IResult<&'a [u8], (OA, OB, OC, OD), E>) -> bool {
                match r {
                    Ok((rest, (a, b, c, d))) => exists|i1: &'a [u8], i2: &'a [u8], i3: &'a [u8]| #![auto]
                        self.0.ensures((i,), Ok((i1, a))) && self.1.ensures((i1,), Ok((i2, b))) && self.2.ensures((i2,), Ok((i3, c))) && self.3.ensures((i3,), Ok((rest, d))),
                    Err(e) => self.0.ensures((i,), Err(e))
                        || (exists|i1: &'a [u8], a: OA| #![auto] self.0.ensures((i,), Ok((i1, a))) && self.1.ensures((i1,), Err(e)))
                        || (exists|i1: &'a [u8], a: OA, i2: &'a [u8], b: OB| #![auto] self.0.ensures((i,), Ok((i1, a))) && self.1.ensures((i1,), Ok((i2, b))) && self.2.ensures((i2,), Err(e)))
                        || (exists|i1: &'a [u8], a: OA, i2: &'a [u8], b: OB, i3: &'a [u8], c: OC| #![auto] self.0.ensures((i,), Ok((i1, a))) && self.1.ensures((i1,), Ok((i2, b))) && self.2.ensures((i2,), Ok((i3, c))) && self.3.ensures((i3,), Err(e))),
                }
            }
        }
        impl<'a, A, B, C, D, F5, OA, OB, OC, OD, OE, E> TupleSpec<'a, (OA, OB, OC, OD, OE), E> for (A, B, C, D, F5)
            where A: Fn(&'a [u8]) -> IResult<&'a [u8], OA, E>, B: Fn(&'a [u8]) -> IResult<&'a [u8], OB, E>, C: Fn(&'a [u8]) -> IResult<&'a [u8], OC, E>,
                  D: Fn(&'a [u8]) -> IResult<&'a [u8], OD, E>, F5: Fn(&'a [u8]) -> IResult<&'a [u8], OE, E>
        {
            open spec fn tp_req(self) -> bool {
                (forall|i: &'a [u8]| #[trigger] self.0.requires((i,))) && (forall|i: &'a [u8]| #[trigger] self.1.requires((i,)))
                    && (forall|i: &'a [u8]| #[trigger] self.2.requires((i,))) && (forall|i: &'a [u8]| #[trigger] self.3.requires((i,)))
                    && (forall|i: &'a [u8]| #[trigger] self.4.requires((i,)))
            }
            open spec fn tp_post(self, i: &'a [u8], r: IResult<&'a [u8], (OA, OB, OC, OD, OE), E>) -> bool {
                match r {
                    Ok((rest, (a, b, c, d, e5))) => exists|i1: &'a [u8], i2: &'a [u8], i3: &'a [u8], i4: &'a [u8]| #![auto]
                        self.0.ensures((i,), Ok((i1, a))) && self.1.ensures((i1,), Ok((i2, b))) && self.2.ensures((i2,), Ok((i3, c))) && self.3.ensures((i3,), Ok((i4, d))) && self.4.ensures((i4,), Ok((rest, e5))),
                    Err(e) => self.0.ensures((i,), Err(e))
                        || (exists|i1: &'a [u8], a: OA| #![auto] self.0.ensures((i,), Ok((i1, a))) && self.1.ensures((i1,), Err(e)))
                        || (exists|i1: &'a [u8], a: OA, i2: &'a [u8], b: OB| #![auto] self.0.ensures((i,), Ok((i1, a))) && self.1.ensures((i1,), Ok((i2, b))) && self.2.ensures((i2,), Err(e)))
                        || (exists|i1: &'a [u8], a: OA, i2: &'a [u8], b: OB, i3: &'a [u8], c: OC| #![auto] self.0.ensures((i,), Ok((i1, a))) && self.1.ensures((i1,), Ok((i2, b))) && self.2.ensures((i2,), Ok((i3, c))) && self.3.ensures((i3,), Err(e)))
                        || (exists|i1: &'a [u8], a: OA, i2: &'a [u8], b: OB, i3: &'a [u8], c: OC, i4: &'a [u8], d: OD| #![auto] self.0.ensures((i,), Ok((i1, a))) && self.1.ensures((i1,), Ok((i2, b))) && self.2.ensures((i2,), Ok((i3, c))) && self.3.ensures((i3,), Ok((i4, d))) && self.4.ensures((i4,), Err(e))),
                }
            }
        }
        #[verifier::external_body]
        pub fn tuple<'a, O, E, L: TupleSpec<'a, O, E>>(l: L) -> (f: impl Fn(&'a [u8]) -> IResult<&'a [u8], O, E>)
            requires
                l.tp_req(),
            ensures
                forall|i: &'a [u8]| #[trigger] f.requires((i,)),
                forall|i: &'a [u8], r: IResult<&'a [u8], O, E>| #[trigger] f.ensures((i,), r) ==> l.tp_post(i, r),
        {
            move |i: &'a [u8]| unimplemented!()
        }
    }

    pub mod number {
        pub mod streaming {
            use vstd::prelude::*;
            use super::super::*;
            use crate::spec::*;
            /// little-endian u32, streaming: 4 bytes or Incomplete(4 - len) (ASSUMED; nom 7.1.3)
            #[verifier::external_body]
            pub fn le_u32<E>(i: &[u8]) -> (r: IResult<&[u8], u32, E>)
                ensures
                    i@.len() >= 4 ==> (match r { Ok((rest, v)) => rest@ == i@.subrange(4, i@.len() as int) && v as int == (i@[0] as int) + 256 * (i@[1] as int) + 65536 * (i@[2] as int) + 16777216 * (i@[3] as int), Err(_) => false }),
                    i@.len() < 4 ==> (match r { Err(Err::Incomplete(NeededE::Size(k))) => k@ == 4 - i@.len(), _ => false }),
            {
                unimplemented!()
            }
            /// one byte, streaming (ASSUMED; nom 7.1.3)
            #[verifier::external_body]
            pub fn be_u8<E>(i: &[u8]) -> (r: IResult<&[u8], u8, E>)
                ensures
                    i@.len() >= 1 ==> (match r { Ok((rest, v)) => rest@ == i@.subrange(1, i@.len() as int) && v == i@[0], Err(_) => false }),
                    i@.len() < 1 ==> (match r { Err(Err::Incomplete(NeededE::Size(k))) => k@ == 1, _ => false }),
            {
                unimplemented!()
            }
            /// big-endian u16, streaming: 2 bytes or Incomplete(2 - len) (ASSUMED; nom 7.1.3)
            #[verifier::external_body]
            pub fn be_u16<E>(i: &[u8]) -> (r: IResult<&[u8], u16, E>)
                ensures
                    i@.len() >= 2 ==> (match r { Ok((rest, v)) => rest@ == i@.subrange(2, i@.len() as int) && v as int == (i@[0] as int) * 256 + (i@[1] as int), Err(_) => false }),
                    i@.len() < 2 ==> (match r { Err(Err::Incomplete(NeededE::Size(k))) => k@ == 2 - i@.len(), _ => false }),
            {
                unimplemented!()
            }
        }
    }

    pub mod bytes {
        pub mod streaming {
            use vstd::prelude::*;
            use super::super::*;
            use crate::spec::*;

            /// streaming `take(count)`: Ok((i[count..], i[..count])) if |i| >= count,
            /// else Incomplete(Size(count - |i|)); never Error/Failure.
            #[verifier::external_body]
            pub fn take<C: ToUsize, E>(count: C) -> (f: impl Fn(&[u8]) -> IResult<&[u8], &[u8], E>)
                ensures
                    forall|i: &[u8]| #[trigger] f.requires((i,)),
                    forall|i: &[u8], r: IResult<&[u8], &[u8], E>| #[trigger] f.ensures((i,), r) ==> spec_take(count.to_usize_spec(), i@, r),
            {
                move |i: &[u8]| unimplemented!()
            }


            /// what `tag` compares against: the bytes of its argument
            pub trait TagArg: Sized {
                spec fn tag_bytes(self) -> Seq<u8>;
            }
            impl<'b> TagArg for &'b str {
                open spec fn tag_bytes(self) -> Seq<u8> { crate::spec::str_bytes(self) }
            }
            impl<'b> TagArg for &'b [u8; 1] {
                open spec fn tag_bytes(self) -> Seq<u8> { self@ }
            }
            /// streaming `tag(t)`: input starts with t => Ok((i[|t|..], i[..|t|])); input is a
            /// proper prefix of t => Incomplete(|t| - |i|); otherwise Error (ASSUMED; nom 7.1.3)
            #[verifier::external_body]
            pub fn tag<T: TagArg, E>(t: T) -> (f: impl Fn(&[u8]) -> IResult<&[u8], &[u8], E>)
                ensures
                    forall|i: &[u8]| #[trigger] f.requires((i,)),
                    forall|i: &[u8], r: IResult<&[u8], &[u8], E>| #[trigger] f.ensures((i,), r) ==> spec_tag(t.tag_bytes(), i@, r),
            {
                move |i: &[u8]| unimplemented!()
            }

            /// streaming `take_while_m_n(0, n, p)` for the predicate "byte != 0" (the only use in
            /// the crate): let k = index of the first NUL in i (or |i| if none);
            ///   k < |i| or |i| >= n  ==> Ok((i[min(k,n)..], i[..min(k,n)]))
            ///   otherwise (no NUL, |i| < n) ==> Incomplete(Size(1))
            #[verifier::external_body]
            pub fn take_while_m_n<F: Fn(u8) -> bool, E>(m: usize, n: usize, cond: F) -> (f: impl Fn(&[u8]) -> IResult<&[u8], &[u8], E>)
                requires
                    m == 0,
                    forall|c: u8| #[trigger] cond.requires((c,)),
                    forall|c: u8, b: bool| #[trigger] cond.ensures((c,), b) ==> b == (c != 0),
                ensures
                    forall|i: &[u8]| #[trigger] f.requires((i,)),
                    forall|i: &[u8], r: IResult<&[u8], &[u8], E>| #[trigger] f.ensures((i,), r) ==> spec_twmn(n, i@, r),
            {
                move |i: &[u8]| unimplemented!()
            }
        }
    }
}

pub mod spec {
    use vstd::prelude::*;
    use crate::nom::*;

    pub open spec fn needed_ok<E>(e: Err<E>, lo: int, hi: int) -> bool {
        match e {
            Err::Incomplete(NeededE::Size(n)) => lo <= n@ <= hi,
            Err::Incomplete(NeededE::Unknown) => true,
            _ => false,
        }
    }

    pub open spec fn spec_take<E>(count: usize, i: Seq<u8>, r: IResult<&[u8], &[u8], E>) -> bool {
        if i.len() >= count {
            match r {
                Ok((rest, out)) => rest@ == i.subrange(count as int, i.len() as int) && out@ == i.subrange(0, count as int),
                Err(_) => false,
            }
        } else {
            match r {
                Err(Err::Incomplete(NeededE::Size(n))) => n@ == count - i.len(),
                _ => false,
            }
        }
    }

    /// `i` starts with the first min(|i|, |t|) bytes of `t` (elementwise, solver friendly)
    pub open spec fn agrees(t: Seq<u8>, i: Seq<u8>) -> bool {
        forall|j: int| 0 <= j < t.len() && j < i.len() ==> #[trigger] i[j] == t[j]
    }

    pub open spec fn spec_tag<E>(t: Seq<u8>, i: Seq<u8>, r: IResult<&[u8], &[u8], E>) -> bool {
        if i.len() >= t.len() && i.subrange(0, t.len() as int) == t {
            match r { Ok((rest, out)) => rest@ == i.subrange(t.len() as int, i.len() as int) && out@.len() == t.len(), Err(_) => false }
        } else if i.len() < t.len() && agrees(t, i) {
            match r { Err(Err::Incomplete(NeededE::Size(n))) => n@ == t.len() - i.len(), _ => false }
        } else {
            match r { Err(Err::Error(_)) => true, _ => false }
        }
    }

    /// elementwise agreement on a full-length prefix is equality of that prefix
    pub broadcast proof fn lemma_prefix_eq(t: Seq<u8>, i: Seq<u8>)
        requires
            i.len() >= t.len(),
            agrees(t, i),
        ensures
            #[trigger] i.subrange(0, t.len() as int) == t,
    {
        assert(i.subrange(0, t.len() as int) =~= t);
    }

    /// the bytes of the one string literal the crate passes to `tag` (ASSUMED: ASCII)
    pub broadcast axiom fn axiom_dlt_literal()
        ensures
            #[trigger] str_bytes("DLT") == seq![0x44u8, 0x4Cu8, 0x54u8],
    ;

    /// index of the first NUL byte of s, or |s| if there is none
    pub open spec fn first_nul(s: Seq<u8>) -> int
        decreases s.len(),
    {
        if s.len() == 0 {
            0
        } else if s[0] == 0 {
            0
        } else {
            1 + first_nul(s.subrange(1, s.len() as int))
        }
    }

    pub open spec fn min(a: int, b: int) -> int {
        if a <= b { a } else { b }
    }

    pub open spec fn spec_twmn<E>(n: usize, i: Seq<u8>, r: IResult<&[u8], &[u8], E>) -> bool {
        let k = first_nul(i);
        if k < i.len() || i.len() >= n {
            let c = min(k, n as int);
            match r {
                Ok((rest, out)) => out@ == i.subrange(0, c) && rest@ == i.subrange(c, i.len() as int),
                Err(_) => false,
            }
        } else {
            match r {
                Err(Err::Incomplete(NeededE::Size(x))) => x@ == 1,
                _ => false,
            }
        }
    }

    pub broadcast proof fn lemma_first_nul_bounds(s: Seq<u8>)
        ensures
            0 <= #[trigger] first_nul(s) <= s.len(),
            forall|j: int| 0 <= j < first_nul(s) ==> s[j] != 0,
            first_nul(s) < s.len() ==> s[first_nul(s)] == 0,
        decreases s.len(),
    {
        if s.len() == 0 {
        } else if s[0] == 0 {
        } else {
            let t = s.subrange(1, s.len() as int);
            lemma_first_nul_bounds(t);
            assert forall|j: int| 0 <= j < first_nul(s) implies s[j] != 0 by {
                if j > 0 {
                    assert(t[j - 1] == s[j]);
                }
            }
            if first_nul(s) < s.len() {
                assert(t[first_nul(t)] == s[first_nul(s)]);
            }
        }
    }

    /// the first NUL of a prefix is the first NUL of the whole, capped at the prefix length
    pub broadcast proof fn lemma_first_nul_prefix(s: Seq<u8>, n: int)
        requires
            0 <= n <= s.len(),
        ensures
            #[trigger] first_nul(s.subrange(0, n)) == min(first_nul(s), n),
        decreases n,
    {
        let p = s.subrange(0, n);
        if n == 0 {
            lemma_first_nul_bounds(s);
        } else if s[0] == 0 {
            assert(p[0] == 0);
        } else {
            assert(p[0] == s[0]);
            let t = s.subrange(1, s.len() as int);
            lemma_first_nul_prefix(t, n - 1);
            assert(p.subrange(1, p.len() as int) =~= t.subrange(0, n - 1));
        }
    }

    pub broadcast proof fn lemma_subrange_prefix_prefix(s: Seq<u8>, n: int, c: int)
        requires
            0 <= c <= n <= s.len(),
        ensures
            #[trigger] s.subrange(0, n).subrange(0, c) == s.subrange(0, c),
    {
        assert(s.subrange(0, n).subrange(0, c) =~= s.subrange(0, c));
    }

    pub broadcast proof fn lemma_subrange_full(s: Seq<u8>)
        ensures
            #[trigger] s.subrange(0, s.len() as int) == s,
    {
        assert(s.subrange(0, s.len() as int) =~= s);
    }

    pub broadcast proof fn lemma_subrange_suffix_suffix(s: Seq<u8>, a: int, b: int)
        requires
            0 <= a <= s.len(),
            0 <= b <= s.len() - a,
        ensures
            #[trigger] s.subrange(a, s.len() as int).subrange(b, s.len() - a) == s.subrange(a + b, s.len() as int),
    {
        assert(s.subrange(a, s.len() as int).subrange(b, s.len() - a) =~= s.subrange(a + b, s.len() as int));
    }

    pub broadcast group group_zts {
        lemma_first_nul_bounds,
        lemma_first_nul_prefix,
        lemma_subrange_prefix_prefix,
        lemma_subrange_full,
        lemma_subrange_suffix_suffix,
        axiom_utf8_prefix_len,
    }

    // ---- UTF-8: std's validator is opaque to Verus; its contract is stated over an
    // uninterpreted "length of the longest valid UTF-8 prefix".
    pub uninterp spec fn utf8_prefix_len(s: Seq<u8>) -> nat;

    /// bytes of a str
    pub uninterp spec fn str_bytes(s: &str) -> Seq<u8>;

    pub broadcast axiom fn axiom_utf8_prefix_len(s: Seq<u8>)
        ensures
            #[trigger] utf8_prefix_len(s) <= s.len(),
            // the longest valid prefix is itself valid, i.e. a fixed point
            utf8_prefix_len(s.subrange(0, utf8_prefix_len(s) as int)) == utf8_prefix_len(s),
    ;

    #[verifier::external_type_specification]
    #[verifier::external_body]
    pub struct ExUtf8Error(core::str::Utf8Error);

    pub uninterp spec fn utf8_error_valid_up_to(e: core::str::Utf8Error) -> nat;

    pub assume_specification<'a>[ core::str::from_utf8 ](v: &'a [u8]) -> (r: Result<&'a str, core::str::Utf8Error>)
        ensures
            utf8_prefix_len(v@) == v@.len() ==> (match r { Ok(t) => str_bytes(t) == v@, Err(_) => false }),
            utf8_prefix_len(v@) < v@.len() ==> (match r { Ok(_) => false, Err(e) => utf8_error_valid_up_to(e) == utf8_prefix_len(v@) }),
    ;

    pub assume_specification[ core::str::Utf8Error::valid_up_to ](e: &core::str::Utf8Error) -> (r: usize)
        ensures
            r as nat == utf8_error_valid_up_to(*e),
    ;

    /// safety precondition of from_utf8_unchecked: the bytes are valid UTF-8
    pub assume_specification<'a>[ core::str::from_utf8_unchecked ](v: &'a [u8]) -> (r: &'a str)
        requires
            utf8_prefix_len(v@) == v@.len(),
        ensures
            str_bytes(r) == v@,
    ;
}

} // verus!
