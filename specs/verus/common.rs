// Common prelude for every Verus unit (everything here is outside the verified code).
use vstd::prelude::*;

// log crate macros: the text of the calls stays in the extracted bodies; the assumption is that
// logging has no effect on the values computed (listed in the trusted base).
#[allow(unused_macros)]
macro_rules! trace { ($($t:tt)*) => { () } }
#[allow(unused_macros)]
macro_rules! debug { ($($t:tt)*) => { () } }
#[allow(unused_macros)]
macro_rules! info { ($($t:tt)*) => { () } }
#[allow(unused_macros)]
macro_rules! warn { ($($t:tt)*) => { () } }
#[allow(unused_macros)]
macro_rules! error { ($($t:tt)*) => { () } }

// format!: message texts are not part of any property; the macro resolves to a function
// returning an unconstrained String (the text of the call stays in the extracted body)
#[allow(unused_macros)]
macro_rules! format { ($($t:tt)*) => { crate::verif_fmt() } }

verus! {
#[verifier::external_body]
pub fn verif_fmt() -> String { String::new() }

// the crate is checked for 64-bit targets (usize = u64), as built in this sandbox
global size_of usize == 8;
}
