// Specification of header lengths and the declared-length verdict (from the DLT layout:
// (flag bits are named by the crate's constants; their numeric values are pinned by the Kani
// harnesses c14_htyp_* against the literal layout) standard header 4 bytes + 4 per optional field (WEID/WSID/WTMS), extended header 10 bytes).
verus! {
pub mod lspec {
    use vstd::prelude::*;
    use crate::code::*;

    pub open spec fn opt4<T>(o: Option<T>) -> int {
        if o.is_some() { 4 } else { 0 }
    }

    /// length of all headers of a header value
    pub open spec fn hdr_len(h: &StandardHeader) -> int {
        4 + opt4(h.ecu_id) + opt4(h.session_id) + opt4(h.timestamp) + (if h.has_extended_header { 10int } else { 0 })
    }

    /// well-formed header value: the declared overall length fits the 16-bit LEN field
    pub open spec fn hdr_wf(h: &StandardHeader) -> bool {
        hdr_len(h) + h.payload_length <= 65535
    }

    /// HTYP byte agrees with the header value on the four flags that determine lengths
    pub open spec fn htyp_matches(h: &StandardHeader, t: u8) -> bool {
        &&& ((t & WITH_EXTENDED_HEADER_FLAG) != 0) == h.has_extended_header
        &&& ((t & WITH_ECU_ID_FLAG) != 0) == h.ecu_id.is_some()
        &&& ((t & WITH_SESSION_ID_FLAG) != 0) == h.session_id.is_some()
        &&& ((t & WITH_TIMESTAMP_FLAG) != 0) == h.timestamp.is_some()
    }

    pub open spec fn std_len_of(t: u8) -> int {
        4 + (if (t & WITH_ECU_ID_FLAG) != 0 { 4int } else { 0 }) + (if (t & WITH_SESSION_ID_FLAG) != 0 { 4int } else { 0 }) + (if (t & WITH_TIMESTAMP_FLAG) != 0 { 4int } else { 0 })
    }

    pub open spec fn all_len_of(t: u8) -> int {
        std_len_of(t) + (if (t & WITH_EXTENDED_HEADER_FLAG) != 0 { 10int } else { 0 })
    }
}
}
