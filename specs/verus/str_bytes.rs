// UTF-8 bytes of a String: std's `len()` and `as_bytes()` have no vstd specification. Both are
// specified over one uninterpreted function str_bytes (ASSUMED: len() is the BYTE length of the
// text and as_bytes() are those bytes; a String never exceeds isize::MAX bytes).
verus! {
pub mod strb {
    use vstd::prelude::*;
    pub uninterp spec fn str_bytes(s: Seq<char>) -> Seq<u8>;
    pub assume_specification[ String::len ](s: &String) -> (r: usize)
        ensures r == str_bytes(s@).len(), r <= 0x7fff_ffff_ffff_ffff;
    pub assume_specification[ String::as_bytes ](s: &String) -> (r: &[u8])
        ensures r@ == str_bytes(s@);
}
} // verus!
