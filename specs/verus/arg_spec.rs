// Specification of the serialised length of a verbose argument, written from the DLT layout:
// 4 bytes type info; optional variable info = 16-bit length(s) + NUL-terminated name (and unit
// for numeric kinds); fixed-point kinds carry a 32-bit quantization and a 32/64-bit offset;
// strings / raw data carry a 16-bit length; strings end with a NUL.
verus! {
pub mod aspec {
    use vstd::prelude::*;
    use crate::code::*;

    pub open spec fn slen(s: &String) -> int { s@.len() as int }

    /// number of UTF-8 bytes of a String (what String::len() returns: str_bytes.rs)
    pub open spec fn string_byte_len(s: &String) -> nat { crate::strb::str_bytes(s@).len() }

    pub open spec fn text_space(o: Option<String>) -> int {
        match o {
            Some(n) => 2 + string_byte_len(&n) as int + 1,
            None => 0,
        }
    }

    pub open spec fn tl_bytes(t: TypeLength) -> int {
        match t {
            TypeLength::BitLength8 => 1,
            TypeLength::BitLength16 => 2,
            TypeLength::BitLength32 => 4,
            TypeLength::BitLength64 => 8,
            TypeLength::BitLength128 => 16,
        }
    }

    pub open spec fn fw_bytes(t: FloatWidth) -> int {
        match t {
            FloatWidth::Width32 => 4,
            FloatWidth::Width64 => 8,
        }
    }

    pub open spec fn fp_space(o: Option<FixedPoint>) -> int {
        match o {
            Some(fp) => 4 + (match fp.offset { FixedPointValue::I32(_) => 4int, FixedPointValue::I64(_) => 8int }),
            None => 0,
        }
    }

    pub open spec fn spec_arg_len(a: &Argument) -> int {
        let ns = text_space(a.name);
        let us = text_space(a.unit);
        4 + match a.type_info.kind {
            TypeInfoKind::Bool => ns + 1,
            TypeInfoKind::Signed(w) => ns + us + tl_bytes(w),
            TypeInfoKind::Unsigned(w) => ns + us + tl_bytes(w),
            TypeInfoKind::SignedFixedPoint(w) => ns + us + fw_bytes(w) + fp_space(a.fixed_point),
            TypeInfoKind::UnsignedFixedPoint(w) => ns + us + fw_bytes(w) + fp_space(a.fixed_point),
            TypeInfoKind::Float(w) => ns + us + fw_bytes(w),
            TypeInfoKind::StringType => 2 + ns + (match a.value { Value::StringVal(s) => string_byte_len(&s) as int + 1, _ => 0int }),
            TypeInfoKind::Raw => 2 + ns + (match a.value { Value::Raw(b) => b@.len() as int, _ => 0int }),
        }
    }

    /// sizes small enough that no usize arithmetic can overflow (any real allocation satisfies it)
    pub open spec fn arg_sizes_ok(a: &Argument) -> bool {
        &&& text_space(a.name) < 0x1_0000_0000
        &&& text_space(a.unit) < 0x1_0000_0000
        &&& (match a.value { Value::StringVal(s) => string_byte_len(&s) < 0x1_0000_0000, Value::Raw(b) => b@.len() < 0x1_0000_0000, _ => true })
    }

    /// C15: "An argument typed bool or 32/64-bit float that carries a value of another kind fails
    /// the validity check" (and the matching ones pass; other kinds are not constrained)
    pub open spec fn spec_valid(a: &Argument) -> bool {
        match a.type_info.kind {
            TypeInfoKind::Bool => a.value is Bool,
            TypeInfoKind::Float(FloatWidth::Width32) => a.value is F32,
            TypeInfoKind::Float(FloatWidth::Width64) => a.value is F64,
            _ => true,
        }
    }
}
}
