// `&s[..]` on a String. std's impl of Index for String is generic over the index type, so the
// assumed specification is generic too; two axioms give its meaning for the full range (the only
// form the header writers use): always allowed, yields the whole string.
verus! {
pub mod strx {
    use vstd::prelude::*;
    use vstd::std_specs::core::IndexSpec;
    pub uninterp spec fn string_index_rel<I: core::slice::SliceIndex<str>>(s: &String, i: I, o: &I::Output) -> bool;
    pub assume_specification<I: core::slice::SliceIndex<str>>[ <String as core::ops::Index<I>>::index ](s: &String, i: I) -> (o: &I::Output)
        ensures string_index_rel::<I>(s, i, o);
    pub broadcast axiom fn axiom_string_full_range(s: &String, i: core::ops::RangeFull, o: &str)
        requires #[trigger] string_index_rel::<core::ops::RangeFull>(s, i, o),
        ensures o@ == s@;
    pub broadcast axiom fn axiom_string_index_req(s: &String, i: core::ops::RangeFull)
        ensures #[trigger] s.index_req(&i);
    /// the bytes of the byte-string literal the storage-header writer starts with (ASSUMED: Verus
    /// gives byte-string literals no content; the axiom is specific to this literal -- any other
    /// literal in its place stays unknown and the layout obligation fails)
    pub broadcast axiom fn axiom_b_dlt()
        ensures #[trigger] b"DLT"@ == seq![0x44u8, 0x4Cu8, 0x54u8];
}
} // verus!
