// Layout of one verbose argument as the writer must produce it (C01 / C02 / C15), over
// uninterpreted fixed-width encodings. Used by units c01_arg_writer (Argument::as_bytes == this
// layout) and c15_arglen (Argument::len == length of this layout).
verus! {
pub mod alay {
    use vstd::prelude::*;
    use crate::code::*;
    use crate::strb::*;

    /// bytes of a 16 / 32 / 64-bit value in byte order T (uninterpreted; byteorder's contract,
    /// exercised on the real crate by every Kani argument harness)
    pub uninterp spec fn u16_ser<T>(n: u16) -> Seq<u8>;
    pub uninterp spec fn f32_ser<T>(n: f32) -> Seq<u8>;
    pub uninterp spec fn i32_ser<T>(n: i32) -> Seq<u8>;
    pub uninterp spec fn i64_ser<T>(n: i64) -> Seq<u8>;
    pub uninterp spec fn i16_ser<T>(n: i16) -> Seq<u8>;
    pub uninterp spec fn i128_ser<T>(n: i128) -> Seq<u8>;
    pub uninterp spec fn u32_ser<T>(n: u32) -> Seq<u8>;
    pub uninterp spec fn u64_ser<T>(n: u64) -> Seq<u8>;
    pub uninterp spec fn u128_ser<T>(n: u128) -> Seq<u8>;
    pub uninterp spec fn f64_ser<T>(n: f64) -> Seq<u8>;
    /// the type-info word of an argument in byte order T (uninterpreted here; complete Kani proof
    /// over all 2^32 words: c14_typeinfo_*)
    pub uninterp spec fn typeinfo_ser<T>(i: TypeInfo) -> Seq<u8>;

    /// b followed by a name / unit text field: its UTF-8 bytes and the terminating NUL; absent = NUL
    pub open spec fn app_text0(b: Seq<u8>, s: Option<String>) -> Seq<u8> {
        match s { Some(t) => (b + str_bytes(t@)).push(0u8), None => b.push(0u8) }
    }
    /// the 16-bit length announced for a name / unit: its BYTE length + 1 (the NUL); absent = 1
    pub open spec fn text_len(s: Option<String>) -> u16 {
        match s { Some(t) => (str_bytes(t@).len() + 1) as u16, None => 1u16 }
    }
    pub open spec fn fits(s: Option<String>) -> bool {
        match s { Some(t) => str_bytes(t@).len() < 65535, None => true }
    }
    /// b followed by the fixed-point data: 32-bit float quantization, then the 32 / 64-bit offset
    pub open spec fn app_fixed_point<T>(b: Seq<u8>, f: Option<FixedPoint>) -> Seq<u8> {
        match f {
            Some(fp) => match fp.offset {
                FixedPointValue::I32(v) => b + f32_ser::<T>(fp.quantization) + i32_ser::<T>(v),
                FixedPointValue::I64(v) => b + f32_ser::<T>(fp.quantization) + i64_ser::<T>(v),
            },
            None => b,
        }
    }
    /// C01 / C02: what precedes the value of a numeric argument: type info; with variable info the
    /// two announced lengths, then name, then unit (each NUL-terminated); then the fixed-point data.
    /// (Written as successive appends, the order in which a writer produces the bytes.)
    pub open spec fn prefix_name_unit<T>(info: TypeInfo, name: Option<String>, unit: Option<String>, fp: Option<FixedPoint>) -> Seq<u8> {
        let ti = typeinfo_ser::<T>(info);
        app_fixed_point::<T>(
            if info.has_variable_info { app_text0(app_text0(ti + u16_ser::<T>(text_len(name)) + u16_ser::<T>(text_len(unit)), name), unit) } else { ti },
            fp)
    }
    /// ... of a bool argument: type info; if a name is given its announced length and the name
    pub open spec fn prefix_name<T>(info: TypeInfo, name: Option<String>) -> Seq<u8> {
        let ti = typeinfo_ser::<T>(info);
        match name { Some(t) => app_text0(ti + u16_ser::<T>(text_len(name)), name), None => ti }
    }

    /// b followed by the value bytes of an unsigned / signed / float argument (width by variant;
    /// any other variant writes nothing)
    pub open spec fn app_unsigned<T>(b: Seq<u8>, v: Value) -> Seq<u8> {
        match v {
            Value::U8(x) => b.push(x),
            Value::U16(x) => b + u16_ser::<T>(x),
            Value::U32(x) => b + u32_ser::<T>(x),
            Value::U64(x) => b + u64_ser::<T>(x),
            Value::U128(x) => b + u128_ser::<T>(x),
            _ => b,
        }
    }
    pub open spec fn app_signed<T>(b: Seq<u8>, v: Value) -> Seq<u8> {
        match v {
            Value::I8(x) => b.push(x as u8),
            Value::I16(x) => b + i16_ser::<T>(x),
            Value::I32(x) => b + i32_ser::<T>(x),
            Value::I64(x) => b + i64_ser::<T>(x),
            Value::I128(x) => b + i128_ser::<T>(x),
            _ => b,
        }
    }
    pub open spec fn app_float<T>(b: Seq<u8>, v: Value) -> Seq<u8> {
        match v {
            Value::F32(x) => b + f32_ser::<T>(x),
            Value::F64(x) => b + f64_ser::<T>(x),
            _ => b,
        }
    }
    pub open spec fn str_fits(v: Value) -> bool {
        match v { Value::StringVal(s) => str_bytes(s@).len() < 65535, _ => true }
    }
    /// C01 / C02: the bytes of one argument. Numeric kinds: prefix, then the value. String: type
    /// info, announced string length (bytes + NUL), with variable info the announced name length,
    /// the name and its NUL, then the text and its NUL. Raw: the same with the plain byte count and
    /// no terminator. A value variant that does not fit the kind / name presence that does not fit
    /// the variable-info flag (ill-formed, outside property C01) yields no bytes for text kinds.
    pub open spec fn arg_layout<T>(a: Argument) -> Seq<u8> {
        let ti = typeinfo_ser::<T>(a.type_info);
        match a.type_info.kind {
            TypeInfoKind::Bool => prefix_name::<T>(a.type_info, a.name).push(match a.value { Value::Bool(x) => x, _ => 0u8 }),
            TypeInfoKind::Signed(_) => app_signed::<T>(prefix_name_unit::<T>(a.type_info, a.name, a.unit, a.fixed_point), a.value),
            TypeInfoKind::SignedFixedPoint(_) => app_signed::<T>(prefix_name_unit::<T>(a.type_info, a.name, a.unit, a.fixed_point), a.value),
            TypeInfoKind::Unsigned(_) => app_unsigned::<T>(prefix_name_unit::<T>(a.type_info, a.name, a.unit, a.fixed_point), a.value),
            TypeInfoKind::UnsignedFixedPoint(_) => app_unsigned::<T>(prefix_name_unit::<T>(a.type_info, a.name, a.unit, a.fixed_point), a.value),
            TypeInfoKind::Float(_) => app_float::<T>(prefix_name_unit::<T>(a.type_info, a.name, a.unit, a.fixed_point), a.value),
            TypeInfoKind::StringType => match (a.type_info.has_variable_info, a.name, a.value) {
                (true, Some(n), Value::StringVal(s)) =>
                    ((ti + u16_ser::<T>((str_bytes(s@).len() + 1) as u16) + u16_ser::<T>((str_bytes(n@).len() + 1) as u16) + str_bytes(n@)).push(0u8) + str_bytes(s@)).push(0u8),
                (false, None, Value::StringVal(s)) =>
                    (ti + u16_ser::<T>((str_bytes(s@).len() + 1) as u16) + str_bytes(s@)).push(0u8),
                _ => Seq::<u8>::empty(),
            },
            TypeInfoKind::Raw => match (a.type_info.has_variable_info, a.name, a.value) {
                (true, Some(n), Value::Raw(bytes)) =>
                    (ti + u16_ser::<T>(bytes@.len() as u16) + u16_ser::<T>((str_bytes(n@).len() + 1) as u16) + str_bytes(n@)).push(0u8) + bytes@,
                (false, None, Value::Raw(bytes)) =>
                    ti + u16_ser::<T>(bytes@.len() as u16) + bytes@,
                _ => Seq::<u8>::empty(),
            },
        }
    }

    // every fixed-width encoding has its width (ASSUMED; byteorder writes into a buffer of exactly
    // that many bytes and the writer appends the whole buffer)
    pub broadcast axiom fn axiom_u16_width<T>(v: u16) ensures #[trigger] u16_ser::<T>(v).len() == 2;
    pub broadcast axiom fn axiom_u32_width<T>(v: u32) ensures #[trigger] u32_ser::<T>(v).len() == 4;
    pub broadcast axiom fn axiom_u64_width<T>(v: u64) ensures #[trigger] u64_ser::<T>(v).len() == 8;
    pub broadcast axiom fn axiom_u128_width<T>(v: u128) ensures #[trigger] u128_ser::<T>(v).len() == 16;
    pub broadcast axiom fn axiom_i16_width<T>(v: i16) ensures #[trigger] i16_ser::<T>(v).len() == 2;
    pub broadcast axiom fn axiom_i32_width<T>(v: i32) ensures #[trigger] i32_ser::<T>(v).len() == 4;
    pub broadcast axiom fn axiom_i64_width<T>(v: i64) ensures #[trigger] i64_ser::<T>(v).len() == 8;
    pub broadcast axiom fn axiom_i128_width<T>(v: i128) ensures #[trigger] i128_ser::<T>(v).len() == 16;
    pub broadcast axiom fn axiom_f32_width<T>(v: f32) ensures #[trigger] f32_ser::<T>(v).len() == 4;
    pub broadcast axiom fn axiom_f64_width<T>(v: f64) ensures #[trigger] f64_ser::<T>(v).len() == 8;
    pub broadcast axiom fn axiom_typeinfo_width<T>(v: TypeInfo) ensures #[trigger] typeinfo_ser::<T>(v).len() == 4;
    pub broadcast group group_ser_widths {
        axiom_u16_width,
        axiom_u32_width,
        axiom_u64_width,
        axiom_u128_width,
        axiom_i16_width,
        axiom_i32_width,
        axiom_i64_width,
        axiom_i128_width,
        axiom_f32_width,
        axiom_f64_width,
        axiom_typeinfo_width,
    }
}
} // verus!
