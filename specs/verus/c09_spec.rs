// Specification of the filter decision, transcribed from the statement of property C09.
verus! {
pub mod fspec {
    use vstd::prelude::*;
    use std::collections::HashSet;
    use crate::code::*;

    /// String keys behave like values in std's HashSet (hash/eq agree with ==): assumption.
    pub broadcast axiom fn axiom_string_key_model()
        ensures
            #[trigger] vstd::std_specs::hash::obeys_key_model::<String>(),
    ;

    pub open spec fn level_valid(l: LogLevel) -> bool {
        !(l is Invalid)
    }

    /// severity rank: 1 = fatal (most severe) .. 6 = verbose (least severe)
    pub open spec fn rank(l: LogLevel) -> int {
        match l {
            LogLevel::Fatal => 1,
            LogLevel::Error => 2,
            LogLevel::Warn => 3,
            LogLevel::Info => 4,
            LogLevel::Debug => 5,
            LogLevel::Verbose => 6,
            LogLevel::Invalid(_) => 0,
        }
    }

    /// "it is a log message with a valid level less severe than the minimum"
    pub open spec fn spec_skip(t: MessageType, min: LogLevel) -> bool {
        match t {
            MessageType::Log(n) => level_valid(n) && rank(n) > rank(min),
            _ => false,
        }
    }

    pub open spec fn set_ok(s: Option<HashSet<String>>) -> bool {
        match s {
            Some(x) => x@.len() <= i64::MAX,
            None => true,
        }
    }

    /// well-formed configuration: the minimum level (when present) is one of the six valid
    /// levels (the conversion from DltFilterConfig never produces another one: Kani harness
    /// c09_cfg_level), and set sizes fit i64 (physically always true).
    pub open spec fn cfg_wf(c: Option<&ProcessedDltFilterConfig>) -> bool {
        match c {
            Some(c) => (match c.min_log_level { Some(l) => level_valid(l), None => true })
                && set_ok(c.app_ids) && set_ok(c.context_ids) && set_ok(c.ecu_ids),
            None => true,
        }
    }

    pub open spec fn not_in(s: Option<HashSet<String>>, id: String) -> bool {
        match s {
            Some(x) => !x@.contains(id),
            None => false,
        }
    }

    pub open spec fn smaller_than(s: Option<HashSet<String>>, count: i64) -> bool {
        match s {
            Some(x) => count > x@.len(),
            None => false,
        }
    }

    pub open spec fn spec_filtered(ext: Option<&ExtendedHeader>, cfg: Option<&ProcessedDltFilterConfig>, ecu: Option<&String>) -> bool {
        match cfg {
            None => false,
            Some(c) => match ext {
                Some(h) => (match c.min_log_level { Some(l) => spec_skip(h.message_type, l), None => false })
                    || not_in(c.app_ids, h.application_id)
                    || not_in(c.context_ids, h.context_id)
                    || (match ecu { Some(e) => not_in(c.ecu_ids, *e), None => false }),
                None => smaller_than(c.app_ids, c.app_id_count) || smaller_than(c.context_ids, c.context_id_count),
            },
        }
    }
}
}
