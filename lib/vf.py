#!/usr/bin/env python3
"""Driver for the contract-based checks of /verif (see DESIGN.md).

  bin/check <ID> [--tier quick|thorough] [--replay <file>] [--keep]

Exit codes: 0 property held on everything explored (known findings are printed and do not fail),
            1 VIOLATION (one line per failed obligation that is not a listed known finding),
            2 undecided (tool limit, lost anchor, timeout, vacuity guard) — must not happen on the
              unchanged tree.
"""
import json, os, re, shutil, subprocess, sys, tempfile, time, hashlib, glob, signal, textwrap

ROOT = os.path.dirname(os.path.dirname(os.path.abspath(__file__)))
REPO = os.environ.get("VERIF_REPO", "/repo")
VX = os.path.join(ROOT, "vx", "target", "debug", "vx")
CACHE = os.path.join(ROOT, ".cache")
NCPU = os.cpu_count() or 4

sys.path.insert(0, os.path.join(ROOT, "lib"))


def log(*a):
    print(*a, file=sys.stderr, flush=True)


class Undecided(Exception):
    pass


# ------------------------------------------------------------------------------------------
# scratch copy of the crate under check (rebuilt from /repo's working tree on every run)
# ------------------------------------------------------------------------------------------

def make_scratch():
    base = os.environ.get("VERIF_TMP") or tempfile.gettempdir()
    d = tempfile.mkdtemp(prefix="dltverif.", dir=base)
    for name in ("Cargo.toml", "Cargo.lock", "build.rs", "README.md"):
        p = os.path.join(REPO, name)
        if os.path.exists(p):
            shutil.copy2(p, os.path.join(d, name))
    for name in ("src", "examples", "benches"):
        p = os.path.join(REPO, name)
        if os.path.isdir(p):
            shutil.copytree(p, os.path.join(d, name))
    return d


def ensure_vx():
    if not os.path.exists(VX):
        log("[setup] building vx")
        env = dict(os.environ, CARGO_NET_OFFLINE="true")
        r = subprocess.run(["cargo", "build", "--offline"], cwd=os.path.join(ROOT, "vx"), env=env,
                           stdout=subprocess.PIPE, stderr=subprocess.STDOUT, text=True)
        if r.returncode != 0:
            raise Undecided("cannot build vx: " + r.stdout[-2000:])


# ------------------------------------------------------------------------------------------
# Engine V: Verus on mechanically extracted functions
# ------------------------------------------------------------------------------------------

ASSUME_PAT = re.compile(r"\b(assume_specification|external_body|external_type_specification|external_fn_specification|admit\s*\(|assume\s*\(|axiom\s+fn|uninterp\s+spec)")


def scan_assumptions(path):
    """mechanical scan of the emitted Verus file for every unchecked assumption"""
    out = []
    lines = open(path).read().split("\n")
    for i, l in enumerate(lines):
        s = l.strip()
        if s.startswith("//"):
            continue
        m = ASSUME_PAT.search(l)
        if m:
            # attach the next non-empty line for attributes (so the reader sees what is assumed)
            ctx = s
            if s.startswith("#["):
                j = i + 1
                while j < len(lines) and (not lines[j].strip() or lines[j].strip().startswith("#[")):
                    j += 1
                if j < len(lines):
                    ctx = s + " " + lines[j].strip()
            out.append(ctx[:200])
    return out


def run_verus_unit(unit, scratch, workdir, expect_fail_prefix="vacuity_canary_"):
    """returns dict(unit, functions=[...], failures=[{obligation, message, ...}], undecided=None|str, ...)"""
    ensure_vx()
    unit_path = os.path.join(ROOT, "specs", "verus", unit + ".toml")
    out_rs = os.path.join(workdir, unit + ".rs")
    rep_json = os.path.join(workdir, unit + ".extract.json")
    t0 = time.time()
    r = subprocess.run([VX, "extract", "--repo", scratch, "--unit", unit_path, "--out", out_rs, "--report", rep_json],
                       stdout=subprocess.PIPE, stderr=subprocess.PIPE, text=True)
    res = dict(unit=unit, engine="verus", functions=[], failures=[], undecided=None, assumptions=[],
               smt_ms=0, wall_s=0.0, verified=0, errors=0, canaries_ok=0, cmd="")
    if r.returncode == 3:
        res["undecided"] = "lost anchor: " + r.stderr.strip()
        return res
    if r.returncode != 0:
        res["undecided"] = "vx extract failed: " + r.stderr.strip()
        return res
    extract = json.load(open(rep_json))
    res["extract"] = extract
    res["assumptions"] = scan_assumptions(out_rs)
    cmd = ["verus", out_rs, "--output-json", "--time", "--multiple-errors", "20", "--error-format=json",
           "--num-threads", str(min(NCPU, 8))]
    res["cmd"] = "vx extract --repo <scratch copy of /repo> --unit specs/verus/%s.toml | verus <unit>.rs --output-json --time" % unit
    try:
        p = subprocess.run(cmd, cwd=workdir, stdout=subprocess.PIPE, stderr=subprocess.PIPE, text=True, timeout=900)
    except subprocess.TimeoutExpired:
        res["undecided"] = "verus timeout (900 s)"
        return res
    res["wall_s"] = round(time.time() - t0, 2)
    # stdout: one JSON document; stderr: rustc-style JSON diagnostics, one per line
    try:
        js = json.loads(p.stdout[p.stdout.index("{"):])
    except Exception:
        res["undecided"] = "verus produced no JSON result: " + (p.stderr[-1500:] or p.stdout[-500:])
        return res
    vr = js.get("verification-results", {})
    res["verified"] = vr.get("verified", 0)
    res["errors"] = vr.get("errors", 0)
    diags = []
    for line in p.stderr.split("\n"):
        line = line.strip()
        if not line.startswith("{"):
            continue
        try:
            d = json.loads(line)
        except Exception:
            continue
        if d.get("level") == "error":
            diags.append(d)
    # per-function results
    fsucc = {}
    try:
        for m in js["times-ms"]["smt"]["smt-run-module-times"]:
            for f in m.get("function-breakdown", []):
                name = f["function"].split("::code::", 1)[-1]
                fsucc[name] = fsucc.get(name, True) and bool(f.get("success"))
                res["functions"].append(dict(function=name, mode=f.get("mode:", ""), smt_us=f.get("time-micros", 0),
                                             rlimit=f.get("rlimit", 0), success=bool(f.get("success"))))
        res["smt_ms"] = js["times-ms"]["smt"].get("smt-run", 0)
    except Exception:
        pass
    if vr.get("encountered-vir-error") or (not vr and diags):
        msgs = "; ".join(d.get("message", "") for d in diags[:5])
        res["undecided"] = "verus could not process the extracted unit (unsupported construct or type error): " + msgs
        return res
    if not vr:
        res["undecided"] = "verus gave no verification-results"
        return res
    # compile errors (rustc) are not verification failures
    src_lines = open(out_rs).read().split("\n")
    fn_ranges = _fn_ranges(src_lines)
    rlimit_fns = []
    for d in diags:
        msg = d.get("message", "")
        if msg.startswith("aborting due to"):
            continue
        spans = d.get("spans", [])
        prim = [s for s in spans if s.get("is_primary")] or spans
        line = prim[0]["line_start"] if prim else 0
        # function containing the *last* span (the body location), falling back to the primary
        fn = None
        for s in spans[::-1]:
            fn = _fn_at(fn_ranges, s["line_start"])
            if fn:
                break
        label_txt = ""
        for s in spans:
            if s.get("label"):
                t = " ".join(x["text"].strip() for x in s.get("text", []))
                label_txt += "%s: `%s`; " % (s["label"], t[:160])
        kind = "other"
        if "postcondition" in msg:
            kind = "postcondition"
        elif "precondition" in msg:
            kind = "precondition"
        elif "overflow" in msg or "underflow" in msg:
            kind = "arithmetic-overflow"
        elif "assertion" in msg:
            kind = "assertion"
        elif "invariant" in msg:
            kind = "invariant"
        elif "index" in msg or "bounds" in msg:
            kind = "bounds"
        elif "rlimit" in msg or "Resource limit" in msg or "timed out" in msg:
            kind = "rlimit"
        elif "decreases" in msg or "termination" in msg:
            kind = "termination"
        if kind == "other" and fn is None:
            # a rustc / verus front-end error, not a proof obligation
            res["undecided"] = "verus front-end error: " + msg
            return res
        fnn = fn or "?"
        if fnn.startswith(expect_fail_prefix) or (fnn.split("::")[-1]).startswith(expect_fail_prefix):
            continue
        if kind == "rlimit":
            rlimit_fns.append(fnn)
            continue
        res["failures"].append(dict(obligation="V:%s:%s" % (fnn, kind), function=fnn, kind=kind, message=msg,
                                    detail=label_txt.strip(), line=line,
                                    rendered=(d.get("rendered") or "")[:1500]))
    # a resource-limit report alone is "undecided"; next to a definite failed obligation of the same
    # function (Verus goes on with the rest of the body after reporting the failed exit) it is not
    for f in rlimit_fns:
        if not any(x["function"] == f for x in res["failures"]):
            res["undecided"] = "verus resource limit in %s" % f
            return res
    # vacuity canaries: functions named vacuity_canary_* must FAIL to verify
    canaries = [f for f in fsucc if f.split("::")[-1].startswith(expect_fail_prefix)]
    for c in canaries:
        if fsucc[c]:
            res["undecided"] = "vacuity guard: canary %s verified (contradictory precondition?)" % c
            return res
        res["canaries_ok"] += 1
    real_fail_fns = [f for f, ok in fsucc.items() if not ok and f not in canaries]
    # consistency: a failed function with no parsed diagnostic
    for f in real_fail_fns:
        if not any(x["function"] == f or x["function"].endswith(f) for x in res["failures"]):
            res["failures"].append(dict(obligation="V:%s:unknown" % f, function=f, kind="unknown",
                                        message="function failed to verify", detail="", line=0, rendered=""))
    if not res["functions"]:
        res["undecided"] = "vacuity guard: verus reported zero verified functions"
    return res


_FN_RE = re.compile(r"^\s*(?:pub\s+)?(?:proof\s+|spec\s+|exec\s+|open\s+|closed\s+|broadcast\s+|const\s+|unsafe\s+)*fn\s+([A-Za-z0-9_]+)")
_IMPL_RE = re.compile(r"^impl\b(.*?)\{?\s*$")


def _fn_ranges(lines):
    """(start, end, qualified name) of every fn of the generated file: a function extends from its
    signature line to the line before the next fn signature (contracts contain braces, so brace
    counting from the signature would end inside the contract)"""
    starts = []
    cur_impl = None
    for i, l in enumerate(lines):
        if l.startswith("impl"):
            m = re.match(r"impl(?:\s*<[^>]*>)?\s+(?:(.+?)\s+for\s+)?([A-Za-z0-9_:<>\s,&']+?)\s*\{", l)
            if m:
                cur_impl = m.group(2).strip().replace(" ", "")
        elif l.startswith("}"):
            cur_impl = None
        m = _FN_RE.match(l)
        if m:
            name = m.group(1)
            starts.append((i + 1, (cur_impl + "::" + name) if cur_impl else name))
    out = []
    for k, (ln, q) in enumerate(starts):
        end = (starts[k + 1][0] - 1) if k + 1 < len(starts) else len(lines)
        out.append((ln, end, q))
    return out


def _fn_at(ranges, line):
    best = None
    for (a, b, q) in ranges:
        if a <= line <= b:
            if best is None or (b - a) < (best[1] - best[0]):
                best = (a, b, q)
    return best[2] if best else None


# ------------------------------------------------------------------------------------------
# Engine K: Kani on the real crate with contracts + harness module injected
# ------------------------------------------------------------------------------------------

UTF8_UNWINDSET = None


SEED = os.path.join(CACHE, "kani-target", "_seed")


def ensure_seed():
    """dependency cache: one Kani target dir with the crate's dependencies compiled, copied for each
    harness group (so that concurrent `cargo kani` runs never share a target dir)"""
    if os.path.isdir(os.path.join(SEED, "kani")):
        return
    import fcntl
    os.makedirs(os.path.dirname(SEED), exist_ok=True)
    with open(SEED + ".lock", "w") as lk:
        fcntl.flock(lk, fcntl.LOCK_EX)
        if os.path.isdir(os.path.join(SEED, "kani")):
            return
        log("[setup] building Kani dependency cache (once)")
        sc = make_scratch()
        try:
            with open(os.path.join(sc, "src", "lib.rs"), "a") as f:
                f.write("\n#[cfg(kani)]\nmod verif_seed { #[kani::proof] fn seed() { assert!(1 + 1 == 2); } }\n")
            env = dict(os.environ, CARGO_NET_OFFLINE="true", CARGO_TARGET_DIR=SEED)
            subprocess.run(["cargo", "kani", "--features", "statistics,stream", "--harness", "verif_seed::seed", "--exact"], cwd=sc, env=env,
                           stdout=subprocess.PIPE, stderr=subprocess.STDOUT, text=True, timeout=1800)
            _prune_dir(SEED)
        finally:
            shutil.rmtree(sc, ignore_errors=True)


def kani_env(key):
    env = dict(os.environ)
    env["CARGO_NET_OFFLINE"] = "true"
    tdir = os.path.join(CACHE, "kani-target", key)
    if not os.path.isdir(tdir):
        ensure_seed()
        if os.path.isdir(SEED):
            subprocess.run(["cp", "-a", SEED, tdir])
        else:
            os.makedirs(tdir, exist_ok=True)
    env["CARGO_TARGET_DIR"] = tdir
    return env, tdir


def inject(scratch):
    ensure_vx()
    rep = os.path.join(scratch, "inject.json")
    r = subprocess.run([VX, "inject", "--crate", scratch, "--contracts", os.path.join(ROOT, "specs", "kani", "contracts.toml"),
                        "--harness-dir", os.path.join(ROOT, "kani", "verif_kani"), "--report", rep],
                       stdout=subprocess.PIPE, stderr=subprocess.PIPE, text=True)
    if r.returncode == 3:
        raise Undecided("lost anchor: " + r.stderr.strip())
    if r.returncode != 0:
        raise Undecided("vx inject failed: " + r.stderr.strip())
    return json.load(open(rep))


FIELD_SENS = ["--max-field-sensitivity-array-size", "256"]

UNDECIDED_DESCR = ("unwinding assertion", "recursion unwinding assertion")


def classify_check(c):
    """violation | undecided | ignore for a failed CBMC check"""
    d = c.get("description", "")
    cat = c.get("category", "")
    if any(d.startswith(u) for u in UNDECIDED_DESCR) or cat == "unwind":
        return "undecided"
    if cat == "unsupported_construct" or "is not currently supported by Kani" in d or "not supported" in d:
        return "undecided"
    return "violation"


def fq(h):
    """fully qualified harness name: verif_kani::<module>::<harness>; the module is the harness-name prefix"""
    if "::" in h:
        return h
    mod = h.split("_")[0]
    if mod.startswith("in"):
        # harness of a private-function module: in_<module>.rs mounted at crate::<module>::verif_in
        return "%s::verif_in::%s" % ({"inp": "parse", "ind": "dlt", "inr": "read", "ins": "statistics"}[mod], h)
    mod = {"c03": "c04", "c05": "c04"}.get(mod, mod)
    if h in ("c15_valid_contract", "c15_arg_count_contract"):
        mod = "c14"
    return "verif_kani::%s::%s" % (mod, h)


def run_kani_group(prop_id, scratch, harnesses, features=None, cbmc_args=None, jobs=None, timeout_s=1800, mem_gb=12,
                   extra_flags=None, key=None):
    """run `cargo kani` for a list of harness names; one retry if the toolchain crashed without results"""
    res, wall = _run_kani_group(prop_id, scratch, harnesses, features, cbmc_args, jobs, timeout_s, mem_gb, extra_flags, key)
    crashed = [r["harness"] for r in res if r["status"] == "undecided" and r["reason"].startswith("no result for harness")]
    if crashed:
        why = next((r["reason"] for r in res if r["harness"] in crashed), "")
        log("[%s] toolchain crash without result for %s: retrying once (%s)" % (prop_id, crashed, " ".join(why[-300:].split())))
        res2, wall2 = _run_kani_group(prop_id, scratch, crashed, features, cbmc_args, min(jobs or len(crashed), 2), timeout_s, mem_gb, extra_flags, (key or prop_id) + ".r")
        by = dict((r["harness"], r) for r in res2)
        res = [by.get(r["harness"], r) if r["harness"] in crashed else r for r in res]
        wall += wall2
    return res, wall


def _run_kani_group(prop_id, scratch, harnesses, features=None, cbmc_args=None, jobs=None, timeout_s=1800, mem_gb=12,
                    extra_flags=None, key=None):
    """run `cargo kani` once for a list of harness names; returns list of per-harness result dicts"""
    # every invocation works on its OWN copy of the (already injected) scratch crate: the crate's
    # build.rs rewrites README.md in the package directory, so concurrent cargo runs in one
    # directory race (one reads the file while another has truncated it -> build script panic)
    base = scratch
    scratch = os.path.join(base, "_k_" + re.sub(r"[^A-Za-z0-9_.]", "_", key or prop_id))
    if os.path.isdir(scratch):
        shutil.rmtree(scratch, ignore_errors=True)
    os.makedirs(scratch)
    for name in ("Cargo.toml", "Cargo.lock", "build.rs", "README.md"):
        if os.path.exists(os.path.join(base, name)):
            shutil.copy2(os.path.join(base, name), os.path.join(scratch, name))
    for name in ("src", "examples", "benches"):
        if os.path.isdir(os.path.join(base, name)):
            shutil.copytree(os.path.join(base, name), os.path.join(scratch, name))
    env, tdir = kani_env(key or prop_id)
    out_json = os.path.join(scratch, "kani-%s.json" % hashlib.md5(" ".join(harnesses).encode()).hexdigest()[:8])
    jobs = jobs or min(len(harnesses), NCPU)
    cmd = ["cargo", "kani", "-Z", "function-contracts", "-Z", "stubbing", "-Z", "unstable-options",
           "--output-format", "terse", "-j", str(jobs), "--export-json", out_json,
           "--harness-timeout", "%ds" % timeout_s]
    if features:
        cmd += ["--features", ",".join(features)]
    for f in (extra_flags or []):
        cmd.append(f)
    for h in harnesses:
        cmd += ["--harness", fq(h)]
    cmd += ["--exact"]
    # CBMC's field-sensitivity limit (default 64 array cells) decides whether byte buffers are
    # tracked cell by cell; above it every buffer access becomes an array-theory term and the
    # harnesses do not finish (measured). Semantics are unchanged by this option.
    cmd += ["--cbmc-args"] + FIELD_SENS + list(cbmc_args or [])
    shown = " ".join(cmd).replace(out_json, "<out>.json")
    t0 = time.time()
    # memory guard: RLIMIT_AS per process
    def pre():
        import resource
        # address-space cap for the whole process group (it is inherited by kani-compiler / rustc,
        # which need a large virtual size: below ~8 GB the compiler aborts with "memory allocation
        # failed"); mem_gb still drives how many harnesses are scheduled at once
        lim = max(mem_gb, 12) * 1024 ** 3
        resource.setrlimit(resource.RLIMIT_AS, (lim, lim))
        os.setsid()
    logf = os.path.join(scratch, "kani-%s.log" % hashlib.md5(" ".join(harnesses).encode()).hexdigest()[:8])
    with open(logf, "w") as lf:
        p = subprocess.Popen(cmd, cwd=scratch, env=env, stdout=lf, stderr=subprocess.STDOUT, preexec_fn=pre)
        try:
            p.wait(timeout=timeout_s * (1 + (len(harnesses) - 1) // max(jobs, 1)) + 600)
        except subprocess.TimeoutExpired:
            try:
                os.killpg(p.pid, signal.SIGKILL)
            except Exception:
                pass
            p.wait()
    wall = time.time() - t0
    text = open(logf).read()
    results = []
    js = None
    if os.path.exists(out_json):
        try:
            js = json.load(open(out_json))
        except Exception:
            js = None
    by_h = {}
    stats = {}
    if js:
        for r in js.get("verification_results", {}).get("results", []):
            by_h[r["harness_id"].split("::")[-1]] = r
        for r in js.get("cbmc", []):
            stats[r["harness_id"].split("::")[-1]] = r.get("cbmc_stats") or {}
    compile_failed = ("error: could not compile" in text) or ("error[E" in text)
    for h in harnesses:
        res = dict(harness=h, engine="kani", status="undecided", reason="", checks=0, failed=[], covers=(0, 0),
                   duration_s=0.0, stats=stats.get(h, {}), cmd=shown)
        r = by_h.get(h)
        if r is None:
            if compile_failed:
                m = re.search(r"(error(\[E\d+\])?:.*?)(\n\n|\Z)", text, re.S)
                res["reason"] = "scratch crate + harness module does not compile under Kani: " + (m.group(1)[:600] if m else "")
            elif "no harnesses matched" in text or "No proof harnesses" in text:
                res["reason"] = "harness not found (0 obligations)"
            else:
                res["reason"] = "no result for harness (timeout / out of memory / crash); tail: " + text[-600:]
            results.append(res)
            continue
        checks = r.get("checks", [])
        res["checks"] = len([c for c in checks if c.get("category") != "cover"])
        res["duration_s"] = r.get("duration_ms", 0) / 1000.0
        failed = [c for c in checks if c.get("status") in ("Failure", "FAILURE")]
        covers = [c for c in checks if c.get("category") == "cover"]
        cov_ok = [c for c in covers if c.get("status") in ("Satisfied", "SATISFIED")]
        res["covers"] = (len(cov_ok), len(covers))
        viol = [c for c in failed if classify_check(c) == "violation"]
        und = [c for c in failed if classify_check(c) == "undecided"]
        res["failed"] = [dict(description=c.get("description"), function=c.get("function"),
                              location="%s:%s" % (c.get("location", {}).get("file"), c.get("location", {}).get("line")),
                              category=c.get("category"), cls=classify_check(c)) for c in failed]
        if viol:
            res["status"] = "violation"
        elif und:
            res["status"] = "undecided"
            res["reason"] = "; ".join(sorted(set(c.get("description", "")[:120] for c in und)))
        elif r.get("status") in ("Success", "SUCCESS"):
            if len(cov_ok) != len(covers):
                res["status"] = "undecided"
                bad = [c.get("description") for c in covers if c not in cov_ok]
                res["reason"] = "vacuity guard: cover not satisfied: %s" % bad
            elif res["checks"] == 0:
                res["status"] = "undecided"
                res["reason"] = "vacuity guard: zero checks"
            else:
                res["status"] = "ok"
        else:
            res["status"] = "undecided"
            # typical: timeout or OOM
            m = re.search(r"(?:Thread \d+: )?.*?%s.*" % re.escape(h), text)
            errs = len([c for c in checks if c.get("status") in ("Error", "ERROR", "Undetermined", "UNDETERMINED")])
            why = "CBMC did not finish (timeout, or killed at the memory limit)" if (errs or not checks) else "status %s" % r.get("status")
            m2 = re.search(r"CBMC failed with status (\d+)", text)
            if m2:
                why += "; CBMC exit status %s" % m2.group(1)
            if "CBMC timed out" in text or "timed out" in text.lower():
                why += "; timed out"
            res["reason"] = "harness did not complete: %s (%d checks undetermined)" % (why, errs)
        results.append(res)
    return results, wall


def kani_playback(prop_id, scratch, harness, features=None, cbmc_args=None):
    """re-run one failing harness with concrete playback; returns (test_source, test_name, file_rel, native_confirms, log)"""
    env, tdir = kani_env(prop_id + ".pb")
    before = {}
    for p in glob.glob(os.path.join(scratch, "src", "verif_kani", "*.rs")):
        before[p] = open(p).read()
    cmd = ["cargo", "kani", "-Z", "function-contracts", "-Z", "stubbing", "-Z", "unstable-options", "-Z", "concrete-playback",
           "--concrete-playback=inplace", "--harness", fq(harness), "--exact"]
    if features:
        cmd += ["--features", ",".join(features)]
    cmd += ["--cbmc-args"] + FIELD_SENS + list(cbmc_args or [])
    try:
        p = subprocess.run(cmd, cwd=scratch, env=env, stdout=subprocess.PIPE, stderr=subprocess.STDOUT, text=True, timeout=3600)
    except subprocess.TimeoutExpired:
        return None, None, None, False, "playback generation timed out"
    test_src, test_name, file_rel = None, None, None
    tests = []
    for pth, old in before.items():
        new = open(pth).read()
        if new != old:
            # Kani inserts the generated unit tests right behind the harness function
            # (for macro-generated harnesses: inside the macro body, indented -- the test is taken
            # out and appended to the end of the file instead)
            found = [textwrap.dedent(t) for t in re.findall(r"[ \t]*#\[test\]\n[ \t]*fn kani_concrete_playback_[A-Za-z0-9_]+\(\) \{.*?\n[ \t]*\}\n", new, re.S)]
            if found:
                file_rel = os.path.relpath(pth, scratch)
                tests = found
            open(pth, "w").write(old)
    if not tests:
        return None, None, file_rel, False, p.stdout[-1500:]
    cands = [t for t in tests if "Check for `cover`" not in t]
    last_out = ""
    for t in cands[:6]:
        m = re.search(r"fn (kani_concrete_playback_[A-Za-z0-9_]+)", t)
        if not m:
            continue
        name = m.group(1)
        pth = os.path.join(scratch, file_rel)
        orig = open(pth).read()
        open(pth, "w").write(orig + "\n" + t)
        ok, out = run_native_playback(prop_id, scratch, name, features)
        open(pth, "w").write(orig)
        last_out = out
        if test_src is None or ok:
            test_src, test_name = t, name
        if ok:
            return test_src, test_name, file_rel, True, out
    return test_src, test_name, file_rel, False, last_out


def run_native_playback(prop_id, scratch, test_name, features=None):
    env, tdir = kani_env(prop_id + ".pb")
    cmd = ["cargo", "kani", "playback", "-Z", "concrete-playback", "--lib"]
    if features:
        cmd += ["--features", ",".join(features)]
    cmd += ["--", test_name]
    try:
        p = subprocess.run(cmd, cwd=scratch, env=env, stdout=subprocess.PIPE, stderr=subprocess.STDOUT, text=True, timeout=1800)
    except subprocess.TimeoutExpired:
        return False, "native playback timed out"
    failed = ("test result: FAILED" in p.stdout) and (test_name in p.stdout)
    keep = [l for l in p.stdout.split("\n") if ("panicked at" in l or "test result" in l or l.startswith("test ") or "attempt to" in l or "assertion" in l or l.startswith("error"))]
    return failed, "\n".join(keep[-40:])


# ------------------------------------------------------------------------------------------
# known findings
# ------------------------------------------------------------------------------------------

def load_known():
    p = os.path.join(ROOT, "known_findings.json")
    if not os.path.exists(p):
        return dict(findings=[], fixed=[])
    return json.load(open(p))


def match_known(known, prop, obligation, detail=""):
    for f in known.get("findings", []):
        if f.get("property") != prop:
            continue
        pat = f.get("obligation", "")
        if pat == obligation or (pat.endswith("*") and obligation.startswith(pat[:-1])):
            need = f.get("detail_contains")
            if need and need not in detail:
                continue
            return f
    return None


# ------------------------------------------------------------------------------------------
# main flow
# ------------------------------------------------------------------------------------------

OUT = os.environ.get("VERIF_OUT", ROOT)   # seed runs redirect evidence / replay files away from /verif


def write_evidence(prop, ev):
    os.makedirs(os.path.join(OUT, "evidence"), exist_ok=True)
    p = os.path.join(OUT, "evidence", prop + ".json")
    with open(p, "w") as f:
        json.dump(ev, f, indent=1, sort_keys=False)
    return p


def write_replay(prop, name, payload):
    os.makedirs(os.path.join(OUT, "replay"), exist_ok=True)
    safe = re.sub(r"[^A-Za-z0-9_.-]", "_", name)[:120]
    p = os.path.join(OUT, "replay", "%s-%s.json" % (prop, safe))
    with open(p, "w") as f:
        json.dump(payload, f, indent=1)
    return p


def main(argv):
    import registry
    if len(argv) < 2:
        print(__doc__)
        return 4
    if argv[1] == "kh":
        return kh_main(argv[2:])
    prop = argv[1]
    tier = os.environ.get("VERIF_TIER", "quick")
    replay = None
    keep = False
    i = 2
    while i < len(argv):
        if argv[i] == "--tier":
            tier = argv[i + 1]; i += 2
        elif argv[i] == "--replay":
            replay = argv[i + 1]; i += 2
        elif argv[i] == "--keep":
            keep = True; i += 1
        else:
            i += 1
    if tier not in ("quick", "thorough"):
        tier = "quick"
    seed = int(os.environ.get("VERIF_SEED", "0") or 0)
    if prop not in registry.PROPS:
        log("unknown property", prop)
        return 4
    spec = registry.PROPS[prop]
    scratch = make_scratch()
    workdir = os.path.join(scratch, "_verus")
    os.makedirs(workdir)
    try:
        if replay:
            return do_replay(prop, spec, scratch, replay)
        return run_check(prop, spec, tier, seed, scratch, workdir)
    except Undecided as e:
        log("UNDECIDED property=%s: %s" % (prop, e))
        ev = dict(property_id=prop, tier=tier, seed=seed, level=spec["level"],
                  coverage=dict(obligations=0, discharged=0, checker_cmd="", trusted_base=[], evaluations=0,
                                distinct_nontrivial=0, explanation="undecided: %s" % e), wall_s=0.0, violations=0,
                  undecided=str(e))
        write_evidence(prop, ev)
        return 2
    finally:
        if keep:
            log("scratch kept at", scratch)
        else:
            shutil.rmtree(scratch, ignore_errors=True)
            # stale crate artefacts of this scratch path in the shared dependency cache
            _prune_target(prop)


def kh_main(args):
    """developer tool: bin/check kh [--timeout S] [--mem GB] [--keep] HARNESS...  — run single harnesses (registry settings)"""
    import registry, threading
    tmo, mem, keep, names, utf8, extra_cbmc = None, None, False, [], None, []
    i = 0
    while i < len(args):
        if args[i] == "--timeout":
            tmo = int(args[i + 1]); i += 2
        elif args[i] == "--mem":
            mem = int(args[i + 1]); i += 2
        elif args[i] == "--keep":
            keep = True; i += 1
        elif args[i] == "--utf8":
            utf8 = int(args[i + 1]); i += 2
        elif args[i] == "--cbmc":
            extra_cbmc = args[i + 1].split(); i += 2
        else:
            names.append(args[i]); i += 1
    specs = {}
    for pid, sp in registry.PROPS.items():
        for h in sp.get("kani", []):
            specs.setdefault(h["name"], h)
    hs = []
    for n in names:
        h = dict(specs.get(n) or dict(name=n))
        if utf8 and "cbmc_args" not in h:
            h["cbmc_args"] = registry.utf8set(utf8)
        if extra_cbmc:
            h["cbmc_args"] = tuple(h.get("cbmc_args", ())) + tuple(extra_cbmc)
        if tmo:
            h["timeout"] = tmo
        if mem:
            h["mem_gb"] = mem
        hs.append(h)
    scratch = make_scratch()
    try:
        inject(scratch)
        groups = {}
        for h in hs:
            key = (tuple(h.get("features", ())), tuple(h.get("cbmc_args", ())), h.get("timeout", 1800), h.get("mem_gb", 6))
            groups.setdefault(key, []).append(h)
        out = {}

        def w(idx, key, g):
            feats, cargs, t, m = key
            out[idx] = run_kani_group("KH", scratch, [h["name"] for h in g], features=list(feats) or None, cbmc_args=list(cargs) or None,
                                      timeout_s=t, mem_gb=m, jobs=len(g), key="KH.%d" % idx)
        ths = [threading.Thread(target=w, args=(i, k, g)) for i, (k, g) in enumerate(groups.items())]
        [t.start() for t in ths]
        [t.join() for t in ths]
        for idx in sorted(out):
            for r in out[idx][0]:
                print("%-36s %-10s %7.1fs checks=%d covers=%s %s" % (r["harness"], r["status"], r["duration_s"], r["checks"], "%d/%d" % tuple(r["covers"]), r["reason"][:300]))
                for f in r["failed"][:8]:
                    print("      FAILED[%s] %s @ %s in %s" % (f["cls"], (f["description"] or "")[:120], f["location"], f["function"]))
        return 0
    finally:
        if keep:
            log("scratch kept at", scratch)
        else:
            shutil.rmtree(scratch, ignore_errors=True)
        for t in glob.glob(os.path.join(CACHE, "kani-target", "KH.*")):
            shutil.rmtree(t, ignore_errors=True)


def _prune_dir(tdir):
    for pat in ("kani/*/debug/deps/dlt_core-*", "kani/*/debug/deps/libdlt_core-*", "kani/*/debug/build/dlt-core-*", "kani/*/debug/build/dlt-core",
                "kani/*/debug/.fingerprint/dlt-core-*", "kani/*/debug/incremental/dlt_core-*",
                "*/debug/deps/dlt_core-*", "*/debug/deps/libdlt_core-*", "*/debug/.fingerprint/dlt-core-*",
                "*/debug/incremental/dlt_core-*", "*/debug/build/dlt-core-*",
                "debug/deps/dlt_core-*", "debug/deps/libdlt_core-*", "debug/.fingerprint/dlt-core-*",
                "debug/incremental/dlt_core-*", "debug/build/dlt-core-*"):
        for p in glob.glob(os.path.join(tdir, pat)):
            if os.path.isdir(p):
                shutil.rmtree(p, ignore_errors=True)
            else:
                try:
                    os.remove(p)
                except OSError:
                    pass


def _prune_target(prop):
    for tdir in glob.glob(os.path.join(CACHE, "kani-target", prop + ".*")) + [os.path.join(CACHE, "kani-target", prop)]:
        if os.path.isdir(tdir):
            _prune_dir(tdir)


def run_check(prop, spec, tier, seed, scratch, workdir):
    t_start = time.time()
    known = load_known()
    obligations = []   # dicts: name, engine, status(ok|violation|undecided|known), exhaustive, bound, detail
    assumptions = set(spec.get("assumptions", []))
    trusted = list(spec.get("trusted_base", []))
    samples = []
    functions_under_contract = []
    solver_time = dict(verus_smt_ms=0, cbmc_symex_s=0.0, cbmc_solver_s=0.0)
    cmds = []
    violations = []
    undecided = []
    known_hits = []

    # ---- Verus units
    for unit in spec.get("verus", []):
        if isinstance(unit, dict):
            if tier not in unit.get("tiers", ("quick", "thorough")):
                continue
            unit = unit["unit"]
        log("[%s] verus unit %s" % (prop, unit))
        r = run_verus_unit(unit, scratch, workdir)
        cmds.append(r["cmd"])
        solver_time["verus_smt_ms"] += r.get("smt_ms", 0)
        for a in r["assumptions"]:
            assumptions.add("verus/%s: %s" % (unit, a))
        if r["undecided"]:
            # Verus could not process the unit (typically: an edit introduced a construct outside its
            # subset). Undecided -- unless a replay probe of one of the unit's functions finds a
            # concrete input that breaks the contract on the real code: a failing execution is a
            # violation whatever the verifier could digest.
            import probes
            found = []
            tried = set()
            for f in (r.get("extract") or {}).get("functions", []):
                if f.get("mode") != "verify":
                    continue
                nm = f["select"].replace("fn ", "").replace("impl ", "").replace(" for ", "_for_").replace(" ", "")
                test = probes.find_probe(nm)
                if test and test not in tried:
                    # one run per probe (several functions of a unit may share one); the violation
                    # names the function the probe itself blames (`PROBE-FAIL <function> ..`)
                    tried.add(test)
                    ok, info = probes.run_probe(prop, dict(function=nm), scratch, seed)
                    if ok:
                        m = re.search(r"PROBE-FAIL (\S+)", info.get("output", ""))
                        found.append((m.group(1) if m else nm, info))
            if found:
                for nm, info in found:
                    obligations.append(dict(name="V:%s" % nm, engine="verus+probe", status="violation", detail=r["undecided"]))
                    violations.append(dict(obligation="V:%s:contract-by-probe" % nm, engine="verus", unit=unit, function=nm,
                                           message="unit not processable by Verus (%s); the replay probe found an input that breaks the contract" % r["undecided"][:200],
                                           detail=info.get("output", "")[:1500], rendered=""))
                continue
            undecided.append("V:%s: %s" % (unit, r["undecided"]))
            obligations.append(dict(name="V:%s" % unit, engine="verus", status="undecided", detail=r["undecided"]))
            continue
        ext = {f["select"]: f for f in r.get("extract", {}).get("functions", [])}
        failed_fns = set(f["function"] for f in r["failures"])
        for f in r["functions"]:
            nm = f["function"]
            if nm.split("::")[-1].startswith("vacuity_canary_"):
                continue
            st = "violation" if any(nm == x or nm.endswith(x) or x.endswith(nm) for x in failed_fns) else "ok"
            sel = ext.get(nm) or ext.get("fn " + nm) or {}
            obligations.append(dict(name="V:%s" % nm, engine="verus/z3", status=st, exhaustive=True,
                                    bound="none (all inputs satisfying the precondition)", smt_us=f["smt_us"],
                                    mode=f["mode"], contract=sel.get("contract", "")))
            if sel.get("mode") == "verify" or (not sel and f["mode"] == "exec"):
                functions_under_contract.append("%s (%s:%s, verus, body verbatim)" % (nm, sel.get("file", "?"), sel.get("line", "?")))
            if len(samples) < 12 and sel.get("contract"):
                samples.append(dict(obligation="V:%s" % nm, contract=sel["contract"], backend="verus/z3", status=st))
        for f in r.get("extract", {}).get("functions", []):
            if f.get("mode") == "assume":
                assumptions.add("verus/%s: contract of %s assumed (external_body): %s" % (unit, f["select"], " ".join(f.get("contract", "").split())[:300]))
        for fl in r["failures"]:
            kf = match_known(known, prop, fl["obligation"], fl.get("detail", "") + fl.get("message", ""))
            if kf:
                known_hits.append((kf, fl["obligation"]))
                for o in obligations:
                    if o["name"] == "V:%s" % fl["function"]:
                        o["status"] = "known"
                continue
            violations.append(dict(obligation=fl["obligation"], engine="verus", message=fl["message"], detail=fl["detail"],
                                   rendered=fl["rendered"], unit=unit, function=fl["function"]))

    # ---- Kani harnesses
    groups = {}
    for h in spec.get("kani", []):
        if tier not in h.get("tiers", ("quick", "thorough")):
            continue
        key = (tuple(h.get("features", ())), tuple(h.get("cbmc_args", ())), h.get("timeout", 1800), h.get("mem_gb", 6), h.get("jobs", 0))
        groups.setdefault(key, []).append(h)
    inj = None
    if groups:
        inj = inject(scratch)
        for c in inj.get("contracts", []):
            functions_under_contract.append("%s (%s:%s, kani contract: %s)" % (c["select"], c["file"], c["line"], "; ".join(c["attrs"])[:200]))
    group_results = {}
    if groups:
        import threading
        total_h = sum(len(v) for v in groups.values())
        budget = dict(cpu=NCPU, mem=52)
        cv = threading.Condition()

        def worker(idx, key, hs):
            feats, cargs, tmo, mem, jobs = key
            names = [h["name"] for h in hs]
            j = jobs or max(1, min(len(names), (NCPU * len(names)) // max(total_h, 1) or 1, NCPU))
            j = max(1, min(j, 52 // max(mem, 1)))
            need_mem = min(j * mem, 52)
            with cv:
                while budget["cpu"] < j and budget["cpu"] < NCPU or budget["mem"] < need_mem:
                    cv.wait()
                budget["cpu"] -= j
                budget["mem"] -= need_mem
            try:
                log("[%s] kani group %d %s features=%s jobs=%d" % (prop, idx, names, list(feats), j))
                group_results[idx] = run_kani_group(prop, scratch, names, features=list(feats) or None, cbmc_args=list(cargs) or None,
                                                    timeout_s=tmo, mem_gb=mem, jobs=j, key="%s.%d" % (prop, idx))
            except Exception as e:  # noqa
                group_results[idx] = ([dict(harness=n, engine="kani", status="undecided", reason="driver error: %r" % e, checks=0, failed=[],
                                            covers=(0, 0), duration_s=0.0, stats={}, cmd="") for n in names], 0.0)
            finally:
                with cv:
                    budget["cpu"] += j
                    budget["mem"] += need_mem
                    cv.notify_all()

        ths = []
        for idx, (key, hs) in enumerate(groups.items()):
            t = threading.Thread(target=worker, args=(idx, key, hs))
            t.start()
            ths.append(t)
        for t in ths:
            t.join()
    for idx, (key, hs) in enumerate(groups.items()):
        feats, cargs, tmo, mem, jobs = key
        results, wall = group_results[idx]
        if results:
            cmds.append(results[0]["cmd"])
        for h, r in zip(hs, results):
            solver_time["cbmc_symex_s"] += (r.get("stats") or {}).get("runtime_symex_s", 0) or 0
            solver_time["cbmc_solver_s"] += (r.get("stats") or {}).get("runtime_solver_s", 0) or 0
            ob = dict(name="K:%s" % h["name"], engine="kani/cbmc", status=r["status"], exhaustive=bool(h.get("exhaustive")),
                      bound=h.get("bound", ""), checks=r["checks"], covers="%d/%d" % r["covers"], duration_s=r["duration_s"],
                      claim=h.get("claim", ""), detail=r.get("reason", ""))
            obligations.append(ob)
            if len(samples) < 24:
                samples.append(dict(obligation=ob["name"], claim=h.get("claim", ""), bound=h.get("bound", ""),
                                    exhaustive=bool(h.get("exhaustive")), backend="kani/cbmc", cbmc_checks=r["checks"], status=r["status"]))
            if r["status"] == "undecided":
                # CBMC did not finish (typically: an edit replaced code the harness was sized for).
                # Undecided -- unless the replay probe registered for the harness finds a concrete
                # input that breaks the harness' claim on the real code.
                if h.get("probe"):
                    import probes
                    okp, info = probes.run_probe(prop, dict(function=h["probe"]), scratch, seed)
                    if okp:
                        ob["status"] = "violation"
                        ob["engine"] = "kani+probe"
                        violations.append(dict(obligation="V:%s:contract-by-probe" % h["probe"], engine="verus", function=h["probe"],
                                               message="Kani harness %s undecided (%s); the replay probe found an input that breaks its claim" % (h["name"], r["reason"][:200]),
                                               detail=info.get("output", "")[:1500], rendered=""))
                        continue
                undecided.append("K:%s: %s" % (h["name"], r["reason"]))
            elif r["status"] == "violation":
                fails = [f for f in r["failed"] if f["cls"] == "violation"]
                descr = "; ".join("%s @ %s" % (f["description"], f["location"]) for f in fails[:6])
                obname = "K:%s" % h["name"]
                # a listed known finding must match every failed check of the harness
                unl = []
                for f in fails:
                    kf = match_known(known, prop, obname, "%s @ %s in %s" % (f["description"], f["location"], f["function"]))
                    if kf:
                        known_hits.append((kf, obname))
                    else:
                        unl.append(f)
                if not unl:
                    ob["status"] = "known"
                    continue
                violations.append(dict(obligation=obname, engine="kani", message=descr, detail=json.dumps(unl)[:3000], harness=h["name"],
                                       features=list(feats), cbmc_args=list(cargs), key="%s.%d" % (prop, idx)))

    # ---- verdict
    wall = round(time.time() - t_start, 2)
    n_ob = len(obligations)
    n_ok = len([o for o in obligations if o["status"] == "ok"])
    exhaustive_all = all(o.get("exhaustive") for o in obligations) if obligations else False
    level = spec["level"]
    cov = dict(
        obligations=n_ob, discharged=n_ok,
        checker_cmd=" ;; ".join(dict.fromkeys(cmds)),
        trusted_base=trusted,
        evaluations=n_ob, distinct_nontrivial=n_ok,
        rule="one evaluation = one named proof obligation (a Verus function with its contract, or a Kani harness = lemma / proof_for_contract over symbolic inputs); non-trivial = discharged with > 0 solver checks and all vacuity covers satisfied",
        samples=samples,
        exhaustive=exhaustive_all,
        explanation=spec.get("explanation", ""),
        obligation_table=obligations,
        functions_under_contract=sorted(set(functions_under_contract)),
        solver_time=solver_time,
        bounds=[dict(obligation=o["name"], bound=o.get("bound", ""), exhaustive=o.get("exhaustive", False)) for o in obligations],
        bounded_obligations=[o["name"] for o in obligations if not o.get("exhaustive")],
        backends=sorted(set(o["engine"] for o in obligations)),
        known_findings=[dict(obligation=ob, what=kf.get("what", "")) for kf, ob in known_hits],
        undecided=undecided,
    )
    if level == "model_checking":
        # CBMC explores program paths symbolically; report its own size measures
        cov["states"] = max(1, sum(o.get("checks", 0) or 0 for o in obligations))
        cov["transitions"] = max(1, n_ob)
        cov["traces_validated_against_impl"] = 0
    ev = dict(property_id=prop, tier=tier, seed=seed, level=level, coverage=cov,
              assumptions=sorted(assumptions), wall_s=wall, violations=len(violations))
    write_evidence(prop, ev)

    seen = set()
    for kf, ob in known_hits:
        k = (kf.get("what"), ob)
        if k in seen:
            continue
        seen.add(k)
        print("KNOWN-FINDING: property=%s %s [%s]" % (prop, kf.get("what", ""), ob))

    if violations:
        # one VIOLATION line per distinct obligation
        merged = {}
        for v in violations:
            if v["obligation"] in merged:
                m = merged[v["obligation"]]
                m["message"] += " | " + v.get("message", "")
                m["detail"] += " | " + v.get("detail", "")
                m["rendered"] = m.get("rendered", "") + "\n" + v.get("rendered", "")
            else:
                merged[v["obligation"]] = v
        violations = list(merged.values())
        for v in violations:
            path = produce_replay(prop, spec, scratch, v, seed)
            tail = "" if v.get("replayed") else " no-failing-input-found"
            print("VIOLATION property=%s replay=%s obligation=%s%s" % (prop, path, v["obligation"], tail))
        ev["violations"] = len(violations)
        write_evidence(prop, ev)
        return 1
    if undecided:
        for u in undecided:
            log("UNDECIDED property=%s %s" % (prop, u))
        return 2
    print("OK property=%s tier=%s obligations=%d discharged=%d wall=%.1fs" % (prop, tier, n_ob, n_ok, wall))
    return 0


def produce_replay(prop, spec, scratch, v, seed):
    payload = dict(property=prop, obligation=v["obligation"], engine=v["engine"], verifier_output=v.get("message", ""),
                   detail=v.get("detail", ""), rendered=v.get("rendered", ""), replayed=False)
    if v["engine"] == "kani":
        log("[%s] generating concrete playback for %s" % (prop, v["harness"]))
        src, name, rel, ok, out = kani_playback(prop, scratch, v["harness"], v.get("features") or None, v.get("cbmc_args") or None)
        payload.update(kind="kani-playback", harness=v["harness"], features=v.get("features"), test_source=src, test_name=name,
                       test_file=rel, native_run_fails=ok, native_output=(out or "")[-3000:])
        payload["replayed"] = bool(ok)
    else:
        import probes
        ok, info = probes.run_probe(prop, v, scratch, seed)
        payload.update(kind="verus-probe", probe=info)
        payload["replayed"] = bool(ok)
    v["replayed"] = payload["replayed"]
    return write_replay(prop, v["obligation"], payload)


def do_replay(prop, spec, scratch, path):
    pl = json.load(open(path))
    print("replaying %s (%s)" % (pl.get("obligation"), pl.get("kind")))
    if pl.get("kind") == "kani-playback" and pl.get("test_source"):
        inject(scratch)
        f = os.path.join(scratch, pl["test_file"])
        with open(f, "a") as fh:
            fh.write(pl["test_source"])
        ok, out = run_native_playback(prop, scratch, pl["test_name"], pl.get("features") or None)
        print(out[-2500:])
        print("REPLAY %s" % ("reproduces the failure on the real code" if ok else "does NOT fail on this tree"))
        return 1 if ok else 0
    if pl.get("kind") == "verus-probe":
        import probes
        # function: recorded by the probe run; else the obligation name without engine prefix and clause
        fn = (pl.get("probe") or {}).get("function") or re.sub(r"^[A-Z]:", "", pl["obligation"]).rsplit(":", 1)[0]
        ok, info = probes.run_probe(prop, dict(obligation=pl["obligation"], function=fn), scratch,
                                    int(os.environ.get("VERIF_SEED", "0") or 0))
        print(json.dumps(info, indent=1)[:3000])
        print("REPLAY %s" % ("reproduces the failure on the real code" if ok else "found no failing input on this tree"))
        return 1 if ok else 0
    print("replay file carries no executable input (no-failing-input-found); verifier output follows")
    print(pl.get("verifier_output", ""))
    print(pl.get("rendered", ""))
    return 0


if __name__ == "__main__":
    sys.exit(main(sys.argv))
