"""Replay probes for failed Verus obligations.

Verus gives no counterexample. For a failed obligation of function F the probe module
/verif/probes/verif_probe.rs is injected into the scratch copy as `#[cfg(test)] mod verif_probe;`
and the test `probe_<F>` is run natively against the real code: it tries boundary values of F's
parameters (0, 1, max, +-1 around every constant of F) and VERIF_SEED-seeded pseudo-random values,
and reports the first input that panics or breaks the postcondition.
"""
import os, re, subprocess, shutil

ROOT = os.path.dirname(os.path.dirname(os.path.abspath(__file__)))

PROBES = {
    # verus function name (suffix match) -> test fn in probes/verif_probe.rs
    "DltTimeStamp::from_us": "probe_from_us",
    "DltTimeStamp::from_ms": "probe_from_ms",
    "StandardHeader::overall_length": "probe_overall_length",
    "validated_payload_length": "probe_validated_payload_length",
    "dlt_zero_terminated_string_intern": "probe_zero_terminated",
    "filtered_out": "probe_filtered_out",
    "Argument::len": "probe_argument_len",
    "Argument::valid": "probe_argument_valid",
    "LevelDistribution::merge": "probe_level_merge",
    "dlt_message_intern": "probe_dlt_message_intern",
    "dlt_consume_msg": "probe_consume_msg",
    "skip_storage_header": "probe_consume_msg",
    "Message::new": "probe_message_new",
    "collect_statistic": "probe_collect_statistic",
    "add_for_level": "probe_collect_statistic",
    "dlt_message": "probe_dlt_message_intern",
    "forward_to_next_storage_header": "probe_forward",
    "Message::as_bytes": "probe_writers",
    "PayloadContent::as_bytes": "probe_writers",
    "StorageHeader::as_bytes": "probe_writers",
    "StandardHeader::as_bytes": "probe_writers",
    "ExtendedHeader::as_bytes": "probe_writers",
    "Argument::mut_buf_with_typeinfo_name_unit": "probe_writers",
    "Argument::mut_buf_with_typeinfo_name": "probe_writers",
    "Argument::as_bytes": "probe_writers",
    "put_unsigned_value": "probe_writers",
    "put_signed_value": "probe_writers",
}


def find_probe(fn):
    test = None
    for k, t in PROBES.items():
        if fn and (fn.endswith(k) or k.endswith(fn)):
            test = t
    return test


def run_probe(prop, v, scratch, seed):
    fn = v.get("function", "")
    test = find_probe(fn)
    info = dict(function=fn, probe=test, found=False, output="")
    if not test:
        info["output"] = "no probe registered for this function"
        return False, info
    src = os.path.join(ROOT, "probes", "verif_probe.rs")
    if not os.path.exists(src):
        info["output"] = "probe source missing"
        return False, info
    shutil.copy2(src, os.path.join(scratch, "src", "verif_probe.rs"))
    lib = os.path.join(scratch, "src", "lib.rs")
    txt = open(lib).read()
    if "mod verif_probe;" not in txt:
        with open(lib, "a") as f:
            f.write("\n#[cfg(test)]\nmod verif_probe;\n")
    env = dict(os.environ, CARGO_NET_OFFLINE="true", VERIF_SEED=str(seed))
    env["CARGO_TARGET_DIR"] = os.path.join(ROOT, ".cache", "probe-target")
    cmd = ["cargo", "test", "--offline", "--lib", "--features", "statistics", "verif_probe::" + test, "--", "--nocapture", "--test-threads", "1"]
    try:
        p = subprocess.run(cmd, cwd=scratch, env=env, stdout=subprocess.PIPE, stderr=subprocess.STDOUT, text=True, timeout=1800)
    except subprocess.TimeoutExpired:
        info["output"] = "probe timed out"
        return False, info
    out = p.stdout
    fails = [l[l.index("PROBE-FAIL"):] if "PROBE-FAIL" in l else l for l in out.split("\n") if "PROBE-FAIL" in l or "panicked at" in l]
    info["cmd"] = " ".join(cmd)
    info["output"] = "\n".join(fails[:10]) if fails else out[-800:]
    info["found"] = bool(fails) and ("test result: FAILED" in out)
    return info["found"], info
