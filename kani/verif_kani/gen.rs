//! Symbolic generators of well-formed DLT values ("shapes") shared by the message-level
//! harnesses, and structural equality helpers (floats compared bit-for-bit).
use super::c09::any_message_type;
use super::c18::{any_coding, any_float_width, any_type_length};
use super::c19::ref_utf8_prefix_len;
use super::refcodec::*;
use crate::dlt::*;

/// symbolic NUL-free valid-UTF-8 string of at most MAX bytes
pub fn any_text<const MAX: usize>() -> String {
    let b: [u8; MAX] = kani::any();
    let n: usize = kani::any();
    kani::assume(n <= MAX);
    let mut v = Vec::with_capacity(MAX);
    let mut i = 0;
    while i < MAX {
        if i < n {
            kani::assume(b[i] != 0);
            v.push(b[i]);
        }
        i += 1;
    }
    kani::assume(ref_utf8_prefix_len(&v) == v.len());
    unsafe { String::from_utf8_unchecked(v) }
}

/// symbolic NUL-free ASCII string of at most MAX bytes (cheaper than any_text)
pub fn any_ascii<const MAX: usize>() -> String {
    let b: [u8; MAX] = kani::any();
    let n: usize = kani::any();
    kani::assume(n <= MAX);
    let mut v = Vec::with_capacity(MAX);
    let mut i = 0;
    while i < MAX {
        if i < n {
            kani::assume(b[i] != 0 && b[i] < 0x80);
            v.push(b[i]);
        }
        i += 1;
    }
    unsafe { String::from_utf8_unchecked(v) }
}

pub fn any_bytes<const MAX: usize>() -> Vec<u8> {
    let b: [u8; MAX] = kani::any();
    let n: usize = kani::any();
    kani::assume(n <= MAX);
    let mut v = Vec::with_capacity(MAX);
    let mut i = 0;
    while i < MAX {
        if i < n {
            v.push(b[i]);
        }
        i += 1;
    }
    v
}

pub fn any_endianness() -> Endianness {
    if kani::any() { Endianness::Big } else { Endianness::Little }
}

pub fn any_canonical_message_type() -> MessageType {
    let t = any_message_type();
    kani::assume(msg_type_canonical(&t));
    t
}

/// standard header with symbolic optional fields; `payload_length` is filled by the caller
pub fn any_std_header<const ID: usize>(has_ext: bool, payload_length: u16) -> StandardHeader {
    let v: u8 = kani::any();
    kani::assume(v <= 7);
    StandardHeader {
        version: v,
        endianness: any_endianness(),
        has_extended_header: has_ext,
        message_counter: kani::any(),
        ecu_id: if kani::any() { Some(any_text::<ID>()) } else { None },
        session_id: if kani::any() { Some(kani::any()) } else { None },
        timestamp: if kani::any() { Some(kani::any()) } else { None },
        payload_length,
    }
}

pub fn any_storage_header<const ID: usize>() -> StorageHeader {
    StorageHeader {
        timestamp: DltTimeStamp { seconds: kani::any(), microseconds: kani::any() },
        ecu_id: any_text::<ID>(),
    }
}

pub fn any_ext_header<const ID: usize>(verbose: bool, noar: u8, t: MessageType) -> ExtendedHeader {
    ExtendedHeader {
        verbose,
        argument_count: noar,
        message_type: t,
        application_id: any_text::<ID>(),
        context_id: any_text::<ID>(),
    }
}

// ---- equality (no Debug, floats bit-for-bit) ------------------------------------------------

pub fn opt_str_eq(a: &Option<String>, b: &Option<String>) -> bool {
    match (a, b) {
        (None, None) => true,
        (Some(x), Some(y)) => x.as_bytes() == y.as_bytes(),
        _ => false,
    }
}

pub fn std_header_eq(a: &StandardHeader, b: &StandardHeader) -> bool {
    a.version == b.version
        && a.endianness == b.endianness
        && a.has_extended_header == b.has_extended_header
        && a.message_counter == b.message_counter
        && opt_str_eq(&a.ecu_id, &b.ecu_id)
        && a.session_id == b.session_id
        && a.timestamp == b.timestamp
        && a.payload_length == b.payload_length
}

pub fn ext_header_eq(a: &ExtendedHeader, b: &ExtendedHeader) -> bool {
    a.verbose == b.verbose
        && a.argument_count == b.argument_count
        && a.message_type == b.message_type
        && a.application_id.as_bytes() == b.application_id.as_bytes()
        && a.context_id.as_bytes() == b.context_id.as_bytes()
}

pub fn storage_header_eq(a: &StorageHeader, b: &StorageHeader) -> bool {
    a.timestamp.seconds == b.timestamp.seconds
        && a.timestamp.microseconds == b.timestamp.microseconds
        && a.ecu_id.as_bytes() == b.ecu_id.as_bytes()
}

pub fn value_eq(a: &Value, b: &Value) -> bool {
    match (a, b) {
        (Value::Bool(x), Value::Bool(y)) => x == y,
        (Value::U8(x), Value::U8(y)) => x == y,
        (Value::U16(x), Value::U16(y)) => x == y,
        (Value::U32(x), Value::U32(y)) => x == y,
        (Value::U64(x), Value::U64(y)) => x == y,
        (Value::U128(x), Value::U128(y)) => x == y,
        (Value::I8(x), Value::I8(y)) => x == y,
        (Value::I16(x), Value::I16(y)) => x == y,
        (Value::I32(x), Value::I32(y)) => x == y,
        (Value::I64(x), Value::I64(y)) => x == y,
        (Value::I128(x), Value::I128(y)) => x == y,
        (Value::F32(x), Value::F32(y)) => x.to_bits() == y.to_bits(),
        (Value::F64(x), Value::F64(y)) => x.to_bits() == y.to_bits(),
        (Value::StringVal(x), Value::StringVal(y)) => x.as_bytes() == y.as_bytes(),
        (Value::Raw(x), Value::Raw(y)) => x == y,
        _ => false,
    }
}

pub fn fixed_point_eq(a: &Option<FixedPoint>, b: &Option<FixedPoint>) -> bool {
    match (a, b) {
        (None, None) => true,
        (Some(x), Some(y)) => x.quantization.to_bits() == y.quantization.to_bits() && x.offset == y.offset,
        _ => false,
    }
}

pub fn argument_eq(a: &Argument, b: &Argument) -> bool {
    a.type_info == b.type_info
        && opt_str_eq(&a.name, &b.name)
        && opt_str_eq(&a.unit, &b.unit)
        && fixed_point_eq(&a.fixed_point, &b.fixed_point)
        && value_eq(&a.value, &b.value)
}

pub fn payload_eq(a: &PayloadContent, b: &PayloadContent) -> bool {
    match (a, b) {
        (PayloadContent::Verbose(x), PayloadContent::Verbose(y)) => {
            if x.len() != y.len() {
                return false;
            }
            let mut i = 0;
            while i < x.len() {
                if !argument_eq(&x[i], &y[i]) {
                    return false;
                }
                i += 1;
            }
            true
        }
        (PayloadContent::NonVerbose(i1, d1), PayloadContent::NonVerbose(i2, d2)) => i1 == i2 && d1 == d2,
        (PayloadContent::ControlMsg(c1, d1), PayloadContent::ControlMsg(c2, d2)) => c1 == c2 && d1 == d2,
        (PayloadContent::NetworkTrace(x), PayloadContent::NetworkTrace(y)) => {
            if x.len() != y.len() {
                return false;
            }
            let mut i = 0;
            while i < x.len() {
                if x[i] != y[i] {
                    return false;
                }
                i += 1;
            }
            true
        }
        _ => false,
    }
}

pub fn message_eq(a: &Message, b: &Message) -> bool {
    (match (&a.storage_header, &b.storage_header) {
        (None, None) => true,
        (Some(x), Some(y)) => storage_header_eq(x, y),
        _ => false,
    }) && std_header_eq(&a.header, &b.header)
        && (match (&a.extended_header, &b.extended_header) {
            (None, None) => true,
            (Some(x), Some(y)) => ext_header_eq(x, y),
            _ => false,
        })
        && payload_eq(&a.payload, &b.payload)
}

/// symbolic NUL-free text of EXACTLY N bytes, all sizes concrete for CBMC. Alphabet: ASCII
/// (1..=0x7F). Multi-byte UTF-8 content is generated by `text_exact_mb`; a loop-based validity
/// filter over symbolic bytes (ref_utf8_prefix_len) makes every harness that uses it unwind to
/// its bound (measured) and is therefore not used in generators.
pub fn text_exact<const N: usize>() -> String {
    ascii_exact::<N>()
}

/// one multi-byte UTF-8 character of exactly N bytes (N = 2, 3, 4), every code point of that
/// length (Unicode Table 3-7 ranges), no loop
pub fn text_exact_mb<const N: usize>() -> String {
    let b: [u8; N] = kani::any();
    if N == 2 {
        kani::assume(b[0] >= 0xC2 && b[0] <= 0xDF && b[1] >= 0x80 && b[1] <= 0xBF);
    } else if N == 3 {
        kani::assume(b[0] >= 0xE0 && b[0] <= 0xEF && b[1] >= 0x80 && b[1] <= 0xBF && b[2] >= 0x80 && b[2] <= 0xBF);
        kani::assume(b[0] != 0xE0 || b[1] >= 0xA0);
        kani::assume(b[0] != 0xED || b[1] <= 0x9F);
    } else {
        kani::assume(b[0] >= 0xF0 && b[0] <= 0xF4 && b[1] >= 0x80 && b[1] <= 0xBF && b[2] >= 0x80 && b[2] <= 0xBF && b[3] >= 0x80 && b[3] <= 0xBF);
        kani::assume(b[0] != 0xF0 || b[1] >= 0x90);
        kani::assume(b[0] != 0xF4 || b[1] <= 0x8F);
    }
    unsafe { String::from_utf8_unchecked(b.to_vec()) }
}

/// symbolic NUL-free ASCII string of EXACTLY N bytes
pub fn ascii_exact<const N: usize>() -> String {
    let b: [u8; N] = kani::any();
    let mut i = 0;
    while i < N {
        kani::assume(b[i] != 0 && b[i] < 0x80);
        i += 1;
    }
    unsafe { String::from_utf8_unchecked(b.to_vec()) }
}

/// symbolic byte vector of EXACTLY N bytes
pub fn bytes_exact<const N: usize>() -> Vec<u8> {
    let b: [u8; N] = kani::any();
    b.to_vec()
}
