//! C14 — header-type, message-info and type-info codes decode and re-encode consistently.
//! All three domains are finite and the code is loop-free: these harnesses are complete proofs.
use super::refcodec::*;
use super::util::*;
use crate::dlt::*;
use byteorder::{BigEndian, LittleEndian};
use core::convert::TryFrom;

pub fn same_kind(k: &TypeInfoKind, r: RefKind) -> bool {
    fn tl(t: TypeLength) -> u8 {
        match t {
            TypeLength::BitLength8 => 1,
            TypeLength::BitLength16 => 2,
            TypeLength::BitLength32 => 4,
            TypeLength::BitLength64 => 8,
            TypeLength::BitLength128 => 16,
        }
    }
    fn fw(t: FloatWidth) -> u8 {
        match t {
            FloatWidth::Width32 => 4,
            FloatWidth::Width64 => 8,
        }
    }
    match (k, r) {
        (TypeInfoKind::Bool, RefKind::Bool) => true,
        (TypeInfoKind::Signed(w), RefKind::Signed(b)) => tl(*w) == b,
        (TypeInfoKind::Unsigned(w), RefKind::Unsigned(b)) => tl(*w) == b,
        (TypeInfoKind::SignedFixedPoint(w), RefKind::SignedFixed(b)) => fw(*w) == b,
        (TypeInfoKind::UnsignedFixedPoint(w), RefKind::UnsignedFixed(b)) => fw(*w) == b,
        (TypeInfoKind::Float(w), RefKind::Float(b)) => fw(*w) == b,
        (TypeInfoKind::StringType, RefKind::Str) => true,
        (TypeInfoKind::Raw, RefKind::Raw) => true,
        _ => false,
    }
}

pub fn same_coding(c: &StringCoding, scod: u8) -> bool {
    match c {
        StringCoding::ASCII => scod == 0,
        StringCoding::UTF8 => scod == 1,
        StringCoding::Reserved(v) => *v == scod && scod >= 2,
    }
}

/// all 2^32 type-info words
#[kani::proof]
#[kani::stub(alloc::fmt::format, fmt_stub)]
fn c14_type_info_all() {
    let w: u32 = kani::any();
    let real = TypeInfo::try_from(w);
    let reference = ref_decode_type_info(w);
    match (&real, reference) {
        (Err(_), None) => {}
        (Ok(ti), Some(r)) => {
            // decodes to what the layout prescribes
            assert!(same_kind(&ti.kind, r.kind));
            assert!(same_coding(&ti.coding, r.scod));
            assert!(ti.has_variable_info == r.vari);
            assert!(ti.has_trace_info == r.trai);
            // encoding: same in both byte orders up to byte reversal
            let be = ti.as_bytes::<BigEndian>();
            let le = ti.as_bytes::<LittleEndian>();
            assert!(be.len() == 4 && le.len() == 4);
            assert!(be[0] == le[3] && be[1] == le[2] && be[2] == le[1] && be[3] == le[0]);
            let w2 = u32::from_be_bytes([be[0], be[1], be[2], be[3]]);
            // differs from the original word only in bits unused for that kind
            assert!((w ^ w2) & !ref_unused_mask(r.kind) == 0);
            // and the unused bits are written as zero (canonical encoding)
            assert!(w2 & ref_unused_mask(r.kind) == 0);
            // the encoding decodes to the same description
            match TypeInfo::try_from(w2) {
                Ok(ti2) => { assert!(ti2 == *ti); }
                Err(_) => { assert!(false); }
            }
        }
        // accepted exactly for words naming one supported kind with a supported width
        (Ok(_), None) => { assert!(false); }
        (Err(_), Some(_)) => { assert!(false); }
    }
    kani::cover!(real.is_ok());
    kani::cover!(real.is_err());
}

pub fn ref_msin_ok(m: u8, t: &MessageType) -> bool {
    let mstp = (m >> 1) & 7;
    let mtin = m >> 4;
    match t {
        MessageType::Log(l) => {
            mstp == 0
                && match l {
                    LogLevel::Fatal => mtin == 1,
                    LogLevel::Error => mtin == 2,
                    LogLevel::Warn => mtin == 3,
                    LogLevel::Info => mtin == 4,
                    LogLevel::Debug => mtin == 5,
                    LogLevel::Verbose => mtin == 6,
                    LogLevel::Invalid(v) => *v == mtin && (mtin == 0 || mtin > 6),
                }
        }
        MessageType::ApplicationTrace(a) => {
            mstp == 1
                && match a {
                    ApplicationTraceType::Variable => mtin == 1,
                    ApplicationTraceType::FunctionIn => mtin == 2,
                    ApplicationTraceType::FunctionOut => mtin == 3,
                    ApplicationTraceType::State => mtin == 4,
                    ApplicationTraceType::Vfb => mtin == 5,
                    ApplicationTraceType::Invalid(v) => *v == mtin && (mtin == 0 || mtin > 5),
                }
        }
        MessageType::NetworkTrace(n) => {
            mstp == 2
                && match n {
                    NetworkTraceType::Invalid => mtin == 0,
                    NetworkTraceType::Ipc => mtin == 1,
                    NetworkTraceType::Can => mtin == 2,
                    NetworkTraceType::Flexray => mtin == 3,
                    NetworkTraceType::Most => mtin == 4,
                    NetworkTraceType::Ethernet => mtin == 5,
                    NetworkTraceType::Someip => mtin == 6,
                    NetworkTraceType::UserDefined(v) => *v == mtin && mtin > 6,
                }
        }
        MessageType::Control(c) => {
            mstp == 3
                && match c {
                    ControlType::Request => mtin == 1,
                    ControlType::Response => mtin == 2,
                    ControlType::Unknown(v) => *v == mtin && (mtin == 0 || mtin > 2),
                }
        }
        MessageType::Unknown((a, b)) => mstp >= 4 && *a == mstp && *b == mtin,
    }
}

/// all 256 message-info bytes
#[kani::proof]
#[kani::stub(alloc::fmt::format, fmt_stub)]
fn c14_msin_all() {
    let m: u8 = kani::any();
    match MessageType::try_from(m) {
        Ok(t) => {
            assert!(ref_msin_ok(m, &t));
            let back = u8::from(&t);
            assert!(back & 1 == 0);
            assert!((back | (m & 1)) == m);
        }
        Err(_) => { assert!(false); }
    }
}

/// all 256 header-type bytes: flag composition (writer side) is the layout
#[kani::proof]
fn c14_htyp_compose_all() {
    let h: u8 = kani::any();
    let ecu = if h & WEID != 0 { Some(String::new()) } else { None };
    let sid: Option<u32> = if h & WSID != 0 { Some(kani::any()) } else { None };
    let tms: Option<u32> = if h & WTMS != 0 { Some(kani::any()) } else { None };
    let hdr = StandardHeader {
        version: h >> 5,
        endianness: if h & MSBF != 0 { Endianness::Big } else { Endianness::Little },
        has_extended_header: h & UEH != 0,
        message_counter: kani::any(),
        ecu_id: ecu,
        session_id: sid,
        timestamp: tms,
        payload_length: 0,
    };
    assert!(hdr.header_type_byte() == h);
    assert!(calculate_standard_header_length(h) == ref_std_header_len(h));
    assert!(calculate_all_headers_length(h) == ref_all_headers_len(h));
    assert!(hdr.overall_length() == ref_all_headers_len(h));
}

/// all 256 header-type bytes through the real parser: decoded flags / version are the layout,
/// re-encoding returns the same byte. Input: HTYP, MCNT, LEN = exactly the header length (the
/// smallest accepted), followed by 12 symbolic bytes of optional fields.
#[kani::proof]
#[kani::stub(alloc::fmt::format, fmt_stub)]
#[kani::unwind(14)]
fn c14_htyp_parse_all() {
    let h: u8 = kani::any();
    let mut buf: [u8; 16] = kani::any();
    buf[0] = h;
    let len = ref_all_headers_len(h);
    buf[2] = (len >> 8) as u8;
    buf[3] = (len & 0xff) as u8;
    match crate::parse::dlt_standard_header(&buf) {
        Ok((rest, hdr)) => {
            assert!(hdr.version == h >> 5);
            assert!(hdr.has_extended_header == (h & UEH != 0));
            assert!((hdr.endianness == Endianness::Big) == (h & MSBF != 0));
            assert!(hdr.ecu_id.is_some() == (h & WEID != 0));
            assert!(hdr.session_id.is_some() == (h & WSID != 0));
            assert!(hdr.timestamp.is_some() == (h & WTMS != 0));
            assert!(hdr.header_type_byte() == h);
            assert!(rest.len() == 16 - ref_std_header_len(h) as usize);
        }
        Err(_) => { assert!(false); }
    }
}

// ---- function contracts (specs/kani/contracts.toml) and their proofs -----------------------

pub fn post_control_value(c: &ControlType, r: u8) -> bool {
    match c {
        ControlType::Request => r == 1,
        ControlType::Response => r == 2,
        ControlType::Unknown(n) => r == *n,
    }
}
pub fn post_control_from_value(t: u8, r: &ControlType) -> bool {
    match r {
        ControlType::Request => t == 1,
        ControlType::Response => t == 2,
        ControlType::Unknown(n) => *n == t && t != 1 && t != 2,
    }
}
/// "An argument typed bool or 32/64-bit float that carries a value of another kind fails"
pub fn post_arg_valid(a: &Argument, r: bool) -> bool {
    let want = match a.type_info.kind {
        TypeInfoKind::Bool => matches!(a.value, Value::Bool(_)),
        TypeInfoKind::Float(FloatWidth::Width32) => matches!(a.value, Value::F32(_)),
        TypeInfoKind::Float(FloatWidth::Width64) => matches!(a.value, Value::F64(_)),
        _ => true,
    };
    r == want
}
pub fn hdr_len_of(h: &StandardHeader) -> u16 {
    4 + (if h.ecu_id.is_some() { 4 } else { 0 }) + (if h.session_id.is_some() { 4 } else { 0 }) + (if h.timestamp.is_some() { 4 } else { 0 }) + (if h.has_extended_header { 10 } else { 0 })
}

fn any_control_type() -> ControlType {
    match kani::any::<u8>() % 3 {
        0 => ControlType::Request,
        1 => ControlType::Response,
        _ => ControlType::Unknown(kani::any()),
    }
}

#[kani::proof_for_contract(crate::dlt::ControlType::value)]
fn c14_control_value_contract() {
    let c = any_control_type();
    let _ = c.value();
}
#[kani::proof_for_contract(crate::dlt::ControlType::from_value)]
fn c14_control_from_value_contract() {
    let _ = ControlType::from_value(kani::any());
}
/// value / from_value are inverse on every byte (the id byte of a control message survives
/// parse -> write and write -> parse)
#[kani::proof]
fn c14_control_value_roundtrip() {
    let t: u8 = kani::any();
    assert!(ControlType::from_value(t).value() == t);
}
#[kani::proof_for_contract(crate::dlt::TypeLength::width_in_bytes)]
fn c14_type_length_width_contract() {
    let _ = super::c18::any_type_length().width_in_bytes();
}
#[kani::proof_for_contract(crate::dlt::FloatWidth::width_in_bytes)]
fn c14_float_width_contract() {
    let _ = super::c18::any_float_width().width_in_bytes();
}
#[kani::proof_for_contract(crate::dlt::float_width_to_type_length)]
fn c14_float_width_to_type_length_contract() {
    let _ = float_width_to_type_length(super::c18::any_float_width());
}
#[kani::proof_for_contract(crate::dlt::StandardHeader::overall_length)]
fn c14_overall_length_contract() {
    let h = StandardHeader {
        version: kani::any(),
        endianness: super::gen::any_endianness(),
        has_extended_header: kani::any(),
        message_counter: kani::any(),
        ecu_id: if kani::any() { Some(String::new()) } else { None },
        session_id: if kani::any() { Some(kani::any()) } else { None },
        timestamp: if kani::any() { Some(kani::any()) } else { None },
        payload_length: kani::any(),
    };
    let _ = h.overall_length();
}

/// C15: "An argument typed bool or 32/64-bit float that carries a value of another kind fails
/// the validity check" -- contract of Argument::valid over every kind x every value variant
#[kani::proof_for_contract(crate::dlt::Argument::valid)]
fn c15_valid_contract() {
    let a = Argument {
        type_info: TypeInfo { kind: super::c18::any_kind(), coding: super::c18::any_coding(), has_variable_info: kani::any(), has_trace_info: kani::any() },
        name: None,
        unit: None,
        fixed_point: None,
        value: super::c18::any_value_variant(),
    };
    let _ = a.valid();
}

pub fn post_arg_count(p: &PayloadContent, r: u8) -> bool {
    match p {
        PayloadContent::Verbose(a) => a.len() > 255 || r as usize == a.len(),
        PayloadContent::NetworkTrace(s) => s.len() > 255 || r as usize == s.len(),
        _ => r == 0,
    }
}

fn i8_arg() -> Argument {
    Argument {
        type_info: TypeInfo { kind: TypeInfoKind::Signed(TypeLength::BitLength8), coding: StringCoding::UTF8, has_variable_info: false, has_trace_info: false },
        name: None,
        unit: None,
        fixed_point: None,
        value: Value::I8(kani::any()),
    }
}

/// contract of PayloadContent::arg_count on every payload kind with 0..2 elements
#[kani::proof_for_contract(crate::dlt::PayloadContent::arg_count)]
#[kani::unwind(6)]
fn c15_arg_count_contract() {
    let p = match kani::any::<u8>() % 8 {
        0 => PayloadContent::Verbose(Vec::new()),
        1 => PayloadContent::Verbose(vec![i8_arg()]),
        2 => PayloadContent::Verbose(vec![i8_arg(), i8_arg()]),
        3 => PayloadContent::NetworkTrace(Vec::new()),
        4 => PayloadContent::NetworkTrace(vec![Vec::new()]),
        5 => PayloadContent::NetworkTrace(vec![Vec::new(), vec![1u8]]),
        6 => PayloadContent::NonVerbose(kani::any(), Vec::new()),
        _ => PayloadContent::ControlMsg(ControlType::Request, Vec::new()),
    };
    let _ = p.arg_count();
}
