//! C04 — a successful parse consumes exactly the declared message and makes progress.
//! C05 — every proper prefix of a valid message is incomplete, with a safe hint.
//! C03 — no byte sequence crashes the slice parsers or the use of what they return.
//! Shaped buffers: the structure (which headers, which payload kind) is fixed per harness, every
//! field value, the declared length LEN and the argument count are symbolic and INDEPENDENT of
//! each other (payload longer / shorter than declared: the case the test-suite never builds).
use super::c01::*;
use super::gen::*;
use super::refcodec::*;
use super::util::*;
use crate::dlt::*;
use crate::filtering::ProcessedDltFilterConfig;
use crate::parse::*;

/// use of a returned message must not panic (C03) and lengths must be consistent
pub fn use_message(m: &Message) {
    let bytes = m.as_bytes();
    let _ = m.byte_len();
    if let PayloadContent::Verbose(args) = &m.payload {
        let mut i = 0;
        while i < args.len() {
            let _ = args[i].len();
            assert!(args[i].valid());
            i += 1;
        }
    }
    let _ = bytes.len();
}

/// obligations on `dlt_message(buf)` for a buffer without storage header whose standard header
/// declares LEN: Ok => remainder starts exactly at LEN (strict suffix), FilteredOut carries
/// LEN - headers; never a panic.
pub fn check_consumption(buf: &[u8], filter: Option<&ProcessedDltFilterConfig>) {
    check_consumption_opt(buf, filter, true)
}

pub fn check_consumption_opt(buf: &[u8], filter: Option<&ProcessedDltFilterConfig>, reserialise: bool) {
    let htyp = buf[0];
    let len = u16::from_be_bytes([buf[2], buf[3]]) as usize;
    let headers = ref_all_headers_len(htyp) as usize;
    match dlt_message(buf, filter, false) {
        Ok((rest, ParsedMessage::Item(m))) => {
            assert!(len >= headers && len <= buf.len());
            assert!(rest.len() == buf.len() - len);
            assert!(bytes_eq(rest, &buf[len..]));
            assert!(rest.len() < buf.len());
            if reserialise {
                use_message(&m);
            }
        }
        Ok((rest, ParsedMessage::FilteredOut(n))) => {
            assert!(len >= headers && len <= buf.len());
            assert!(n == len - headers);
            assert!(bytes_eq(rest, &buf[len..]));
            assert!(rest.len() < buf.len());
        }
        Ok((_, ParsedMessage::Invalid)) => {
            // unreachable for parsed headers (C02 proves LEN >= headers after a successful
            // header parse); would not make progress
            assert!(false);
        }
        Err(DltParseError::IncompleteParse { needed }) => {
            if let Some(n) = needed {
                assert!(n.get() >= 1);
            }
        }
        Err(_) => {}
    }
}

/// standard header without optional fields: HTYP = version | MSBF? | UEH?
fn put_min_header(buf: &mut [u8], ueh: bool) {
    buf[0] = (buf[0] & 0xE2) | (if ueh { 1 } else { 0 });
}

/// non-verbose / control payloads, extended header present, LEN symbolic
#[kani::proof]
#[kani::stub(alloc::fmt::format, fmt_stub)]
#[kani::unwind(12)]
fn c04_consume_nonverbose_ext() {
    const N: usize = 24;
    let mut buf: [u8; N] = kani::any();
    put_min_header(&mut buf, true);
    buf[4] &= 0xFE; // non-verbose
    let n: usize = kani::any();
    kani::assume(n >= 4 && n <= N);
    check_consumption(&buf[..n], None);
    kani::cover!(n == N && u16::from_be_bytes([buf[2], buf[3]]) == 20);
}

/// no extended header: non-verbose payload
#[kani::proof]
#[kani::stub(alloc::fmt::format, fmt_stub)]
#[kani::unwind(12)]
fn c04_consume_nonverbose_noext() {
    const N: usize = 14;
    let mut buf: [u8; N] = kani::any();
    put_min_header(&mut buf, false);
    let n: usize = kani::any();
    kani::assume(n >= 4 && n <= N);
    check_consumption(&buf[..n], None);
}

/// verbose payload with U32 / bool arguments; NOAR in 0..=2 and LEN symbolic and independent:
/// arguments shorter or longer than the declared payload
#[kani::proof]
#[kani::stub(alloc::fmt::format, fmt_stub)]
#[kani::unwind(12)]
fn c04_consume_verbose() {
    const N: usize = 32;
    let mut buf: [u8; N] = kani::any();
    put_min_header(&mut buf, true);
    buf[4] = (buf[4] & 0xF0) | 0x01; // verbose log message
    kani::assume(buf[5] <= 2);
    let big = buf[0] & MSBF != 0;
    // first argument: U32 without variable info; second: bool
    let w1: u32 = TI_UINT | 3;
    let w2: u32 = TI_BOOL | 1;
    let b1 = if big { w1.to_be_bytes() } else { w1.to_le_bytes() };
    let b2 = if big { w2.to_be_bytes() } else { w2.to_le_bytes() };
    buf[14..18].copy_from_slice(&b1);
    buf[22..26].copy_from_slice(&b2);
    let n: usize = kani::any();
    kani::assume(n >= 14 && n <= N);
    check_consumption(&buf[..n], None);
}

/// verbose message without arguments (NOAR = 0) whose declared length LEN is symbolic: payload
/// bytes that no argument accounts for must still be consumed (exactly LEN bytes in total)
#[kani::proof]
#[kani::stub(alloc::fmt::format, fmt_stub)]
#[kani::unwind(12)]
fn c04_consume_verbose_noar0() {
    const N: usize = 18;
    let mut buf: [u8; N] = kani::any();
    put_min_header(&mut buf, true);
    buf[4] = (buf[4] & 0xF0) | 0x01; // verbose log message
    buf[5] = 0;
    // concrete ids: the id strings of the result then have concrete lengths (symbolic-length
    // strings are what makes message-level harnesses expensive)
    buf[6..14].copy_from_slice(b"APP\0CTX\0");
    check_consumption_opt(&buf, None, false);
    kani::cover!(u16::from_be_bytes([buf[2], buf[3]]) == 16);
}

/// the skipper: `dlt_consume_msg` on storage header + minimal standard header, LEN symbolic
#[kani::proof]
#[kani::stub(alloc::fmt::format, fmt_stub)]
#[kani::unwind(12)]
fn c04_consume_msg_skip() {
    const N: usize = 30;
    let mut buf: [u8; N] = kani::any();
    buf[0] = b'D';
    buf[1] = b'L';
    buf[2] = b'T';
    buf[3] = 1;
    buf[16] &= 0xE3; // no optional fields
    let n: usize = kani::any();
    kani::assume(n >= 20 && n <= N);
    let input = &buf[..n];
    let htyp = buf[16];
    let len = u16::from_be_bytes([buf[18], buf[19]]) as usize;
    let headers = ref_all_headers_len(htyp) as usize;
    match dlt_consume_msg(input) {
        Ok((rest, Some(c))) => {
            assert!(len >= headers);
            assert!(c as usize == 16 + len);
            assert!(c > 0 && c as usize <= n);
            assert!(bytes_eq(rest, &input[16 + len..]));
        }
        Ok((_, None)) => { assert!(false); }
        Err(DltParseError::IncompleteParse { needed }) => {
            assert!(16 + len > n);
            if let Some(k) = needed {
                assert!(k.get() >= 1 && k.get() <= 16 + len - n);
            }
        }
        Err(_) => { assert!(len < headers); }
    }
}

/// arbitrary bytes in front (no pattern at offset 0): the skipper rejects or is incomplete, never panics
#[kani::proof]
#[kani::stub(alloc::fmt::format, fmt_stub)]
#[kani::unwind(12)]
fn c03_consume_msg_arbitrary() {
    const N: usize = 22;
    let buf: [u8; N] = kani::any();
    let n: usize = kani::any();
    kani::assume(n <= N);
    let input = &buf[..n];
    match dlt_consume_msg(input) {
        Ok((rest, Some(c))) => {
            assert!(c as usize <= n && c >= 20);
            assert!(rest.len() == n - c as usize);
        }
        Ok((rest, None)) => {
            assert!(n == 0 && rest.len() == 0);
        }
        Err(_) => {}
    }
    match skip_storage_header(input) {
        Ok((rest, k)) => {
            assert!(k == 16 && rest.len() == n - 16);
            assert!(input[0] == b'D' && input[1] == b'L' && input[2] == b'T' && input[3] == 1);
        }
        Err(_) => {}
    }
}

/// fully symbolic small buffers through the message parser (all header-flag combinations that
/// fit), no storage header: no panic, consumption exact
#[kani::proof]
#[kani::stub(alloc::fmt::format, fmt_stub)]
#[kani::unwind(14)]
fn c03_msg_arbitrary_n12() {
    const N: usize = 12;
    let buf: [u8; N] = kani::any();
    let n: usize = kani::any();
    kani::assume(n >= 4 && n <= N);
    check_consumption(&buf[..n], None);
}

// ---- C05: prefixes -------------------------------------------------------------------------

pub fn check_prefixes(m: &Message) {
    let with_storage = m.storage_header.is_some();
    let bytes = m.as_bytes();
    let len = bytes.len();
    let k: usize = kani::any();
    kani::assume(k < len);
    match dlt_message(&bytes[..k], None, with_storage) {
        Err(DltParseError::IncompleteParse { needed }) => {
            if let Some(n) = needed {
                assert!(n.get() >= 1 && n.get() <= len - k);
            }
        }
        _ => { assert!(false); }
    }
    if with_storage {
        match dlt_consume_msg(&bytes[..k]) {
            Err(DltParseError::IncompleteParse { needed }) => {
                assert!(k >= 1);
                if let Some(n) = needed {
                    assert!(n.get() >= 1 && n.get() <= len - k);
                }
            }
            Ok((_, None)) => { assert!(k == 0); }
            _ => { assert!(false); }
        }
    }
}

#[kani::proof]
#[kani::stub(alloc::fmt::format, fmt_stub)]
#[kani::stub(crate::parse::forward_to_next_storage_header, fwd_stub)]
#[kani::unwind(50)]
fn c05_prefix_nonverbose() {
    let p = PayloadContent::NonVerbose(kani::any(), any_bytes::<2>());
    let e = if kani::any() { Some(any_ext_header::<2>(false, 0, MessageType::Log(LogLevel::Warn))) } else { None };
    let m = finish_message::<2>(p, e, kani::any());
    check_prefixes(&m);
}

#[kani::proof]
#[kani::stub(alloc::fmt::format, fmt_stub)]
#[kani::stub(crate::parse::forward_to_next_storage_header, fwd_stub)]
#[kani::unwind(50)]
fn c05_prefix_control() {
    let p = PayloadContent::ControlMsg(ControlType::from_value(kani::any()), any_bytes::<2>());
    let e = any_ext_header::<2>(false, 0, MessageType::Control(ControlType::Request));
    let m = finish_message::<2>(p, Some(e), kani::any());
    check_prefixes(&m);
}

#[kani::proof]
#[kani::stub(alloc::fmt::format, fmt_stub)]
#[kani::stub(crate::parse::forward_to_next_storage_header, fwd_stub)]
#[kani::unwind(50)]
fn c05_prefix_verbose() {
    let a = Argument {
        type_info: TypeInfo { kind: TypeInfoKind::Unsigned(TypeLength::BitLength16), coding: StringCoding::UTF8, has_variable_info: false, has_trace_info: false },
        name: None,
        unit: None,
        fixed_point: None,
        value: Value::U16(kani::any()),
    };
    let s = Argument {
        type_info: TypeInfo { kind: TypeInfoKind::StringType, coding: StringCoding::UTF8, has_variable_info: false, has_trace_info: false },
        name: None,
        unit: None,
        fixed_point: None,
        value: Value::StringVal(any_ascii::<2>()),
    };
    let p = PayloadContent::Verbose(vec![a, s]);
    let e = any_ext_header::<2>(true, 2, MessageType::Log(LogLevel::Info));
    let m = finish_message::<2>(p, Some(e), kani::any());
    check_prefixes(&m);
}

// ---- C05: truncated extended / storage headers (leaf contracts ext_header_post / sto_header_post)

/// every proper prefix of an extended header is Incomplete with a hint <= shortfall
#[kani::proof]
#[kani::stub(alloc::fmt::format, fmt_stub)]
#[kani::unwind(14)]
fn c05_ext_header_truncated() {
    let buf: [u8; 10] = kani::any();
    let n: usize = kani::any();
    kani::assume(n < 10);
    match dlt_extended_header(&buf[..n]) {
        Err(nom::Err::Incomplete(nom::Needed::Size(k))) => { assert!(k.get() >= 1 && k.get() <= 10 - n); }
        Err(nom::Err::Incomplete(nom::Needed::Unknown)) => {}
        _ => { assert!(false); }
    }
}

/// pattern at 0 but fewer than 16 bytes: Incomplete with a hint <= shortfall (or unknown)
#[kani::proof]
#[kani::stub(alloc::fmt::format, fmt_stub)]
#[kani::stub(crate::parse::forward_to_next_storage_header, fwd_stub)]
#[kani::unwind(18)]
fn c05_sto_header_truncated() {
    let mut buf: [u8; 16] = kani::any();
    buf[0] = b'D';
    buf[1] = b'L';
    buf[2] = b'T';
    buf[3] = 1;
    let n: usize = kani::any();
    kani::assume(n < 16);
    match dlt_storage_header(&buf[..n]) {
        Err(nom::Err::Incomplete(nom::Needed::Size(k))) => { assert!(n >= 4 && k.get() >= 1 && k.get() <= 16 - n); }
        Err(nom::Err::Incomplete(nom::Needed::Unknown)) => {}
        _ => { assert!(false); }
    }
}

/// the skipper on every proper prefix of "storage header + minimal standard header": incomplete
/// for every non-empty prefix (never a hard error), "no message" on empty input; hint <= shortfall
#[kani::proof]
#[kani::stub(alloc::fmt::format, fmt_stub)]
#[kani::unwind(24)]
fn c05_consume_msg_prefix() {
    let mut buf: [u8; 20] = kani::any();
    buf[0] = b'D';
    buf[1] = b'L';
    buf[2] = b'T';
    buf[3] = 1;
    let n: usize = kani::any();
    kani::assume(n < 20);
    match dlt_consume_msg(&buf[..n]) {
        Ok((_, None)) => { assert!(n == 0); }
        Err(DltParseError::IncompleteParse { needed }) => {
            assert!(n >= 1);
            if let Some(k) = needed {
                assert!(k.get() >= 1 && k.get() <= 20 - n);
            }
        }
        _ => { assert!(false); }
    }
    if n >= 1 {
        match skip_storage_header(&buf[..n]) {
            Err(DltParseError::IncompleteParse { .. }) => {}
            Ok(_) => { assert!(n >= 16); }
            Err(_) => { assert!(false); }
        }
    }
}
