//! C13 — non-verbose argument construction decodes packed fields in order or refuses.
//! Real `construct_arguments` vs a reference decoder written from the property statement.
use super::c18::{any_coding, any_float_width, any_type_length};
use super::c19::ref_utf8_prefix_len;
use super::gen::*;
use super::util::*;
use crate::dlt::*;
use crate::parse::*;

/// the kinds in the property's vocabulary
fn any_supported_kind() -> TypeInfoKind {
    match kani::any::<u8>() % 6 {
        0 => TypeInfoKind::Bool,
        1 => TypeInfoKind::Signed(any_type_length()),
        2 => TypeInfoKind::Unsigned(any_type_length()),
        3 => TypeInfoKind::Float(any_float_width()),
        4 => TypeInfoKind::StringType,
        _ => TypeInfoKind::Raw,
    }
}

fn any_type_info(kind: TypeInfoKind) -> TypeInfo {
    TypeInfo { kind, coding: StringCoding::UTF8, has_variable_info: false, has_trace_info: false }
}

fn rd(data: &[u8], off: usize, w: usize, big: bool) -> u128 {
    let mut v: u128 = 0;
    let mut i = 0;
    while i < w {
        let b = if big { data[off + i] } else { data[off + w - 1 - i] };
        v = (v << 8) | b as u128;
        i += 1;
    }
    v
}

fn tl_bytes(t: TypeLength) -> usize {
    match t {
        TypeLength::BitLength8 => 1,
        TypeLength::BitLength16 => 2,
        TypeLength::BitLength32 => 4,
        TypeLength::BitLength64 => 8,
        TypeLength::BitLength128 => 16,
    }
}

/// reference: decode one field of kind `k` at `off`; None = payload too short / invalid UTF-8
fn ref_field(k: &TypeInfoKind, data: &[u8], off: usize, big: bool) -> Option<(Value, usize)> {
    match k {
        TypeInfoKind::Bool => {
            if data.len() < off + 1 { return None; }
            Some((Value::Bool(data[off]), off + 1))
        }
        TypeInfoKind::Unsigned(t) => {
            let w = tl_bytes(*t);
            if data.len() < off + w { return None; }
            let v = rd(data, off, w, big);
            Some((match t {
                TypeLength::BitLength8 => Value::U8(v as u8),
                TypeLength::BitLength16 => Value::U16(v as u16),
                TypeLength::BitLength32 => Value::U32(v as u32),
                TypeLength::BitLength64 => Value::U64(v as u64),
                TypeLength::BitLength128 => Value::U128(v),
            }, off + w))
        }
        TypeInfoKind::Signed(t) => {
            let w = tl_bytes(*t);
            if data.len() < off + w { return None; }
            let v = rd(data, off, w, big);
            Some((match t {
                TypeLength::BitLength8 => Value::I8(v as u8 as i8),
                TypeLength::BitLength16 => Value::I16(v as u16 as i16),
                TypeLength::BitLength32 => Value::I32(v as u32 as i32),
                TypeLength::BitLength64 => Value::I64(v as u64 as i64),
                TypeLength::BitLength128 => Value::I128(v as i128),
            }, off + w))
        }
        TypeInfoKind::Float(fw) => {
            let w = match fw { FloatWidth::Width32 => 4, FloatWidth::Width64 => 8 };
            if data.len() < off + w { return None; }
            let v = rd(data, off, w, big);
            Some((match fw {
                FloatWidth::Width32 => Value::F32(f32::from_bits(v as u32)),
                FloatWidth::Width64 => Value::F64(f64::from_bits(v as u64)),
            }, off + w))
        }
        TypeInfoKind::StringType | TypeInfoKind::Raw => {
            if data.len() < off + 2 { return None; }
            let l = rd(data, off, 2, big) as usize;
            let start = off + 2;
            if data.len() < start + l { return None; }
            let field = &data[start..start + l];
            if matches!(k, TypeInfoKind::Raw) {
                Some((Value::Raw(field.to_vec()), start + l))
            } else {
                if ref_utf8_prefix_len(field) != l { return None; }
                let mut v = Vec::with_capacity(l);
                let mut i = 0;
                while i < l { v.push(field[i]); i += 1; }
                Some((Value::StringVal(unsafe { String::from_utf8_unchecked(v) }), start + l))
            }
        }
        _ => None,
    }
}

fn check_ca<const K: usize, const N: usize>() {
    let data: [u8; N] = kani::any();
    let n: usize = kani::any();
    kani::assume(n <= N);
    let data = &data[..n];
    let big: bool = kani::any();
    let cnt: usize = kani::any();
    kani::assume(cnt <= K);
    let mut types: Vec<TypeInfo> = Vec::with_capacity(K);
    let mut i = 0;
    while i < K {
        if i < cnt {
            types.push(any_type_info(any_supported_kind()));
        }
        i += 1;
    }
    let r = construct_arguments(if big { Endianness::Big } else { Endianness::Little }, &types, data);
    // reference walk
    let mut off = 0usize;
    let mut ok = true;
    let mut expected: Vec<Value> = Vec::with_capacity(K);
    let mut j = 0;
    while j < K {
        if j < cnt && ok {
            match ref_field(&types[j].kind, data, off, big) {
                Some((v, o2)) => { expected.push(v); off = o2; }
                None => { ok = false; }
            }
        }
        j += 1;
    }
    match r {
        Ok(args) => {
            assert!(ok);
            assert!(args.len() == cnt);
            let mut t = 0;
            while t < K {
                if t < cnt {
                    assert!(args[t].type_info == types[t]);
                    assert!(value_eq(&args[t].value, &expected[t]));
                    assert!(args[t].name.is_none() && args[t].unit.is_none() && args[t].fixed_point.is_none());
                }
                t += 1;
            }
        }
        Err(_) => { assert!(!ok); }
    }
}

#[kani::proof]
#[kani::stub(alloc::fmt::format, fmt_stub)]
#[kani::unwind(20)]
fn c13_ca_k1_n18() {
    check_ca::<1, 18>();
}

#[kani::proof]
#[kani::stub(alloc::fmt::format, fmt_stub)]
#[kani::unwind(20)]
fn c13_ca_k2_n10() {
    check_ca::<2, 10>();
}

/// fixed-point kinds are outside the property's vocabulary: panic freedom only
#[kani::proof]
#[kani::stub(alloc::fmt::format, fmt_stub)]
#[kani::unwind(20)]
fn c13_ca_fixed_point_nopanic() {
    let data: [u8; 18] = kani::any();
    let n: usize = kani::any();
    kani::assume(n <= 18);
    let kind = if kani::any() { TypeInfoKind::SignedFixedPoint(any_float_width()) } else { TypeInfoKind::UnsignedFixedPoint(any_float_width()) };
    let types = vec![any_type_info(kind)];
    let _ = construct_arguments(any_endianness(), &types, &data[..n]);
}
