//! C13 — non-verbose argument construction decodes packed fields in order or refuses.
//! Real `construct_arguments` vs a reference decoder written from the property statement.
use super::c18::{any_coding, any_float_width, any_type_length};
use super::c19::ref_utf8_prefix_len;
use super::gen::*;
use super::util::*;
use crate::dlt::*;
use crate::parse::*;

/// the kinds in the property's vocabulary
fn any_supported_kind() -> TypeInfoKind {
    match kani::any::<u8>() % 6 {
        0 => TypeInfoKind::Bool,
        1 => TypeInfoKind::Signed(any_type_length()),
        2 => TypeInfoKind::Unsigned(any_type_length()),
        3 => TypeInfoKind::Float(any_float_width()),
        4 => TypeInfoKind::StringType,
        _ => TypeInfoKind::Raw,
    }
}

fn any_type_info(kind: TypeInfoKind) -> TypeInfo {
    TypeInfo { kind, coding: StringCoding::UTF8, has_variable_info: false, has_trace_info: false }
}

fn rd(data: &[u8], off: usize, w: usize, big: bool) -> u128 {
    let mut v: u128 = 0;
    let mut i = 0;
    while i < w {
        let b = if big { data[off + i] } else { data[off + w - 1 - i] };
        v = (v << 8) | b as u128;
        i += 1;
    }
    v
}

fn tl_bytes(t: TypeLength) -> usize {
    match t {
        TypeLength::BitLength8 => 1,
        TypeLength::BitLength16 => 2,
        TypeLength::BitLength32 => 4,
        TypeLength::BitLength64 => 8,
        TypeLength::BitLength128 => 16,
    }
}

/// reference: decode one field of kind `k` at `off`; None = payload too short / invalid UTF-8
fn ref_field(k: &TypeInfoKind, data: &[u8], off: usize, big: bool) -> Option<(Value, usize)> {
    match k {
        TypeInfoKind::Bool => {
            if data.len() < off + 1 { return None; }
            Some((Value::Bool(data[off]), off + 1))
        }
        TypeInfoKind::Unsigned(t) => {
            let w = tl_bytes(*t);
            if data.len() < off + w { return None; }
            let v = rd(data, off, w, big);
            Some((match t {
                TypeLength::BitLength8 => Value::U8(v as u8),
                TypeLength::BitLength16 => Value::U16(v as u16),
                TypeLength::BitLength32 => Value::U32(v as u32),
                TypeLength::BitLength64 => Value::U64(v as u64),
                TypeLength::BitLength128 => Value::U128(v),
            }, off + w))
        }
        TypeInfoKind::Signed(t) => {
            let w = tl_bytes(*t);
            if data.len() < off + w { return None; }
            let v = rd(data, off, w, big);
            Some((match t {
                TypeLength::BitLength8 => Value::I8(v as u8 as i8),
                TypeLength::BitLength16 => Value::I16(v as u16 as i16),
                TypeLength::BitLength32 => Value::I32(v as u32 as i32),
                TypeLength::BitLength64 => Value::I64(v as u64 as i64),
                TypeLength::BitLength128 => Value::I128(v as i128),
            }, off + w))
        }
        TypeInfoKind::Float(fw) => {
            let w = match fw { FloatWidth::Width32 => 4, FloatWidth::Width64 => 8 };
            if data.len() < off + w { return None; }
            let v = rd(data, off, w, big);
            Some((match fw {
                FloatWidth::Width32 => Value::F32(f32::from_bits(v as u32)),
                FloatWidth::Width64 => Value::F64(f64::from_bits(v as u64)),
            }, off + w))
        }
        TypeInfoKind::StringType | TypeInfoKind::Raw => {
            if data.len() < off + 2 { return None; }
            let l = rd(data, off, 2, big) as usize;
            let start = off + 2;
            if data.len() < start + l { return None; }
            let field = &data[start..start + l];
            if matches!(k, TypeInfoKind::Raw) {
                Some((Value::Raw(field.to_vec()), start + l))
            } else {
                if ref_utf8_prefix_len(field) != l { return None; }
                let mut v = Vec::with_capacity(l);
                let mut i = 0;
                while i < l { v.push(field[i]); i += 1; }
                Some((Value::StringVal(unsafe { String::from_utf8_unchecked(v) }), start + l))
            }
        }
        _ => None,
    }
}

/// One constant SHAPE: the list of signal types, the payload length N, the byte order and (for
/// strings / raw data) the 16-bit length prefix are constants; every other payload byte is
/// symbolic. (Symbolic type lists / lengths make CBMC allocate symbolic sizes and do not finish.)
/// Real construct_arguments vs the reference walk: Ok(values) == reference, Err iff the
/// reference refuses (too short / invalid UTF-8); no panic (CBMC's own checks).
fn check_ca_shape<const N: usize>(kinds: &[TypeInfoKind], big: bool, prefix: Option<(usize, u16)>) {
    let mut data: [u8; N] = kani::any();
    if let Some((at, l)) = prefix {
        let b = if big { l.to_be_bytes() } else { l.to_le_bytes() };
        if at < N { data[at] = b[0]; }
        if at + 1 < N { data[at + 1] = b[1]; }
    }
    let mut types: Vec<TypeInfo> = Vec::with_capacity(kinds.len());
    let mut i = 0;
    while i < kinds.len() {
        types.push(any_type_info(kinds[i].clone()));
        i += 1;
    }
    let r = construct_arguments(if big { Endianness::Big } else { Endianness::Little }, &types, &data);
    let mut off = 0usize;
    let mut ok = true;
    let mut expected: Vec<Value> = Vec::with_capacity(kinds.len());
    let mut j = 0;
    while j < kinds.len() {
        if ok {
            match ref_field(&kinds[j], &data, off, big) {
                Some((v, o2)) => { expected.push(v); off = o2; }
                None => { ok = false; }
            }
        }
        j += 1;
    }
    match r {
        Ok(args) => {
            assert!(ok);
            assert!(args.len() == kinds.len());
            let mut t = 0;
            while t < kinds.len() {
                assert!(args[t].type_info == types[t]);
                assert!(value_eq(&args[t].value, &expected[t]));
                assert!(args[t].name.is_none() && args[t].unit.is_none() && args[t].fixed_point.is_none());
                t += 1;
            }
        }
        Err(_) => { assert!(!ok); }
    }
}

macro_rules! ca_harness {
    ($name:ident, $n:expr, $big:expr, $prefix:expr, [$($k:expr),*]) => {
        #[kani::proof]
        #[kani::stub(alloc::fmt::format, fmt_stub)]
        #[kani::unwind(20)]
        fn $name() {
            check_ca_shape::<$n>(&[$($k),*], $big, $prefix);
        }
    };
}
use TypeInfoKind as K;
use TypeLength as L;
// bool at the end of the data / exact / trailing byte
ca_harness!(c13_bool_n0, 0, true, None, [K::Bool]);
ca_harness!(c13_bool_n1, 1, true, None, [K::Bool]);
ca_harness!(c13_bool_n2, 2, false, None, [K::Bool]);
ca_harness!(c13_u16_bool_n2_be, 2, true, None, [K::Unsigned(L::BitLength16), K::Bool]);
ca_harness!(c13_u16_bool_n3_le, 3, false, None, [K::Unsigned(L::BitLength16), K::Bool]);
ca_harness!(c13_u16_bool_n1, 1, true, None, [K::Unsigned(L::BitLength16), K::Bool]);
// integers of every width, both orders, truncated by one byte and exact
ca_harness!(c13_u8_i32_n5_be, 5, true, None, [K::Unsigned(L::BitLength8), K::Signed(L::BitLength32)]);
ca_harness!(c13_u8_i32_n4_le, 4, false, None, [K::Unsigned(L::BitLength8), K::Signed(L::BitLength32)]);
ca_harness!(c13_i8_u32_n6_le, 6, false, None, [K::Signed(L::BitLength8), K::Unsigned(L::BitLength32)]);
ca_harness!(c13_u64_n8_le, 8, false, None, [K::Unsigned(L::BitLength64)]);
ca_harness!(c13_i64_n9_be, 9, true, None, [K::Signed(L::BitLength64)]);
ca_harness!(c13_u64_n7, 7, true, None, [K::Unsigned(L::BitLength64)]);
ca_harness!(c13_i128_n16_be, 16, true, None, [K::Signed(L::BitLength128)]);
ca_harness!(c13_u128_n16_le, 16, false, None, [K::Unsigned(L::BitLength128)]);
ca_harness!(c13_u128_n15, 15, false, None, [K::Unsigned(L::BitLength128)]);
ca_harness!(c13_i16_i16_n4_be, 4, true, None, [K::Signed(L::BitLength16), K::Signed(L::BitLength16)]);
// floats
ca_harness!(c13_f32_n4_be, 4, true, None, [K::Float(FloatWidth::Width32)]);
ca_harness!(c13_f32_n3, 3, false, None, [K::Float(FloatWidth::Width32)]);
ca_harness!(c13_f64_n8_le, 8, false, None, [K::Float(FloatWidth::Width64)]);
ca_harness!(c13_u8_f64_n9_be, 9, true, None, [K::Unsigned(L::BitLength8), K::Float(FloatWidth::Width64)]);
// raw data: 16-bit length prefix 3 (constant), cut inside the prefix / inside the body / exact / trailing
ca_harness!(c13_raw3_n1, 1, true, Some((0, 3)), [K::Raw]);
ca_harness!(c13_raw3_n3, 3, true, Some((0, 3)), [K::Raw]);
ca_harness!(c13_raw3_n4, 4, false, Some((0, 3)), [K::Raw]);
ca_harness!(c13_raw3_n5_be, 5, true, Some((0, 3)), [K::Raw]);
ca_harness!(c13_raw3_n6_le, 6, false, Some((0, 3)), [K::Raw]);
ca_harness!(c13_raw0_u8_n3, 3, true, Some((0, 0)), [K::Raw, K::Unsigned(L::BitLength8)]);
ca_harness!(c13_u8_raw1_n4, 4, false, Some((1, 1)), [K::Unsigned(L::BitLength8), K::Raw]);
// strings: length prefix 2 (constant), every content (valid and invalid UTF-8), cut / exact / trailing
ca_harness!(c13_str2_n3, 3, true, Some((0, 2)), [K::StringType]);
ca_harness!(c13_str2_n4_be, 4, true, Some((0, 2)), [K::StringType]);
ca_harness!(c13_str2_n5_le, 5, false, Some((0, 2)), [K::StringType]);
ca_harness!(c13_str0_bool_n3, 3, false, Some((0, 0)), [K::StringType, K::Bool]);

macro_rules! ca_nopanic {
    ($name:ident, $n:expr, $big:expr, $k:expr) => {
        #[kani::proof]
        #[kani::stub(alloc::fmt::format, fmt_stub)]
        #[kani::unwind(20)]
        fn $name() {
            let data: [u8; $n] = kani::any();
            let types = vec![any_type_info($k)];
            let _ = construct_arguments(if $big { Endianness::Big } else { Endianness::Little }, &types, &data);
        }
    };
}
// fixed-point kinds are outside the property's vocabulary: panic freedom only
ca_nopanic!(c13_sfix32_n8_nopanic, 8, true, K::SignedFixedPoint(FloatWidth::Width32));
ca_nopanic!(c13_ufix64_n8_nopanic, 8, false, K::UnsignedFixedPoint(FloatWidth::Width64));
ca_nopanic!(c13_ufix32_n3_nopanic, 3, true, K::UnsignedFixedPoint(FloatWidth::Width32));
ca_nopanic!(c13_sfix64_n20_nopanic, 20, false, K::SignedFixedPoint(FloatWidth::Width64));
