//! experiments (not registered)
use super::c04::*;
use super::gen::*;
use super::refcodec::*;
use super::util::*;
use crate::dlt::*;
use crate::parse::*;

#[kani::proof]
#[kani::stub(alloc::fmt::format, fmt_stub)]
#[kani::unwind(12)]
fn exp_t1() {
    let l: u8 = kani::any();
    kani::assume(l <= 20);
    let p: [u8; 4] = kani::any();
    let buf: [u8; 18] = [0x21, 7, 0, l, 0x41, 0, b'A', b'P', b'P', 0, b'C', b'T', b'X', 0, p[0], p[1], p[2], p[3]];
    check_consumption_opt(&buf, None, false);
}

#[kani::proof]
#[kani::stub(alloc::fmt::format, fmt_stub)]
#[kani::unwind(12)]
fn exp_t2() {
    let l: u8 = kani::any();
    kani::assume(l <= 20);
    let p: [u8; 4] = kani::any();
    let buf: [u8; 18] = [0x21, 7, 0, l, 0x41, 0, b'A', b'P', b'P', 0, b'C', b'T', b'X', 0, p[0], p[1], p[2], p[3]];
    let _ = dlt_message(&buf, None, false);
}

#[kani::proof]
#[kani::stub(alloc::fmt::format, fmt_stub)]
#[kani::unwind(12)]
fn exp_t3() {
    let p: [u8; 4] = kani::any();
    let buf: [u8; 18] = [0x21, 7, 0, 16, 0x41, 0, b'A', b'P', b'P', 0, b'C', b'T', b'X', 0, p[0], p[1], p[2], p[3]];
    let _ = dlt_message(&buf, None, false);
}
