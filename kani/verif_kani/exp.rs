//! experiments (not registered)
use super::c01::*;
use super::gen::*;
use super::refcodec::*;
use super::util::*;
use crate::dlt::*;
use crate::parse::*;
use byteorder::{BigEndian, LittleEndian};

fn str_arg<const S: usize>() -> Argument {
    Argument {
        type_info: TypeInfo { kind: TypeInfoKind::StringType, coding: StringCoding::UTF8, has_variable_info: false, has_trace_info: false },
        name: None, unit: None, fixed_point: None, value: Value::StringVal(text_exact::<S>()),
    }
}

#[kani::proof]
#[kani::stub(alloc::fmt::format, fmt_stub)]
#[kani::unwind(12)]
fn exp_w_s3() {
    let a = str_arg::<3>();
    let bytes = a.as_bytes::<BigEndian>();
    let mut o = Out::new();
    ref_put_argument(&mut o, &a, true);
    assert!(o.eq_bytes(&bytes));
    assert!(a.len() == bytes.len());
}

#[kani::proof]
#[kani::stub(alloc::fmt::format, fmt_stub)]
#[kani::unwind(14)]
fn exp_p_s3() {
    let a = str_arg::<3>();
    let mut o = Out::new();
    ref_put_argument(&mut o, &a, true);
    let tail: [u8; 2] = kani::any();
    o.put(tail[0]);
    o.put(tail[1]);
    const N: usize = 4 + 2 + 3 + 1 + 2;
    assert!(o.n == N);
    let mut arr = [0u8; N];
    let mut i = 0;
    while i < N { arr[i] = o.b[i]; i += 1; }
    match dlt_argument::<BigEndian>(&arr) {
        Ok((rest, a2)) => {
            assert!(argument_eq(&a, &a2));
            assert!(bytes_eq(rest, &tail));
        }
        Err(_) => { assert!(false); }
    }
}
