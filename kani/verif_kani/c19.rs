//! C19 — fixed-size NUL-terminated fields. The unbounded proof is the Verus unit c19_zts (real
//! body verbatim against assumed contracts of nom::take / take_while_m_n / from_utf8). The
//! harnesses here (a) check the same postcondition on the real nom + std for small buffers and
//! (b) discharge those assumed dependency contracts at small sizes (DESIGN §2.4).
use super::util::*;
use crate::parse::*;

/// Reference: length of the longest prefix of `s` consisting of complete well-formed UTF-8
/// sequences (Unicode 15, Table 3-7).
pub fn ref_utf8_prefix_len(s: &[u8]) -> usize {
    let n = s.len();
    let mut i = 0;
    while i < n {
        let b0 = s[i];
        let need;
        let lo;
        let hi;
        if b0 <= 0x7F {
            i += 1;
            continue;
        } else if b0 >= 0xC2 && b0 <= 0xDF {
            need = 1; lo = 0x80; hi = 0xBF;
        } else if b0 == 0xE0 {
            need = 2; lo = 0xA0; hi = 0xBF;
        } else if (b0 >= 0xE1 && b0 <= 0xEC) || b0 == 0xEE || b0 == 0xEF {
            need = 2; lo = 0x80; hi = 0xBF;
        } else if b0 == 0xED {
            need = 2; lo = 0x80; hi = 0x9F;
        } else if b0 == 0xF0 {
            need = 3; lo = 0x90; hi = 0xBF;
        } else if b0 >= 0xF1 && b0 <= 0xF3 {
            need = 3; lo = 0x80; hi = 0xBF;
        } else if b0 == 0xF4 {
            need = 3; lo = 0x80; hi = 0x8F;
        } else {
            return i;
        }
        if i + need >= n {
            return i;
        }
        let b1 = s[i + 1];
        if b1 < lo || b1 > hi {
            return i;
        }
        let mut k = 2;
        while k <= need {
            let b = s[i + k];
            if b < 0x80 || b > 0xBF {
                return i;
            }
            k += 1;
        }
        i += need + 1;
    }
    n
}

pub fn ref_first_nul(s: &[u8]) -> usize {
    let mut i = 0;
    while i < s.len() {
        if s[i] == 0 {
            return i;
        }
        i += 1;
    }
    s.len()
}

fn check_zts(s: &[u8], size: usize) {
    let r = dlt_zero_terminated_string(s, size);
    if s.len() >= size {
        match r {
            Ok((rest, text)) => {
                let field = &s[..size];
                let k = ref_first_nul(field);
                let content = &field[..k];
                let p = ref_utf8_prefix_len(content);
                assert!(bytes_eq(rest, &s[size..]));
                assert!(bytes_eq(text.as_bytes(), &content[..p]));
            }
            Err(_) => { assert!(false); }
        }
    } else {
        match r {
            Err(DltParseError::IncompleteParse { needed }) => {
                if let Some(n) = needed {
                    assert!(n.get() >= 1 && n.get() <= size - s.len());
                }
            }
            _ => { assert!(false); }
        }
    }
}

/// all buffers of length <= N over the full byte alphabet, all sizes 0..=N+1
#[kani::proof]
#[kani::stub(alloc::fmt::format, fmt_stub)]
#[kani::unwind(7)]
fn c19_zts_n4() {
    const N: usize = 4;
    let buf: [u8; N] = kani::any();
    let len: usize = kani::any();
    kani::assume(len <= N);
    let size: usize = kani::any();
    kani::assume(size <= N + 1);
    check_zts(&buf[..len], size);
    kani::cover!(len >= size && size == N);
    kani::cover!(len < size);
}

#[kani::proof]
#[kani::stub(alloc::fmt::format, fmt_stub)]
#[kani::unwind(9)]
fn c19_zts_n6() {
    const N: usize = 6;
    let buf: [u8; N] = kani::any();
    let len: usize = kani::any();
    kani::assume(len <= N);
    let size: usize = kani::any();
    kani::assume(size <= N + 1);
    check_zts(&buf[..len], size);
    kani::cover!(len >= size && size == N);
    kani::cover!(len < size);
}

/// larger sizes with a short buffer: the hint arithmetic `size - len` for any size up to 65535
#[kani::proof]
#[kani::stub(alloc::fmt::format, fmt_stub)]
#[kani::unwind(6)]
fn c19_zts_big_size() {
    const N: usize = 3;
    let buf: [u8; N] = kani::any();
    let len: usize = kani::any();
    kani::assume(len <= N);
    let size: usize = kani::any();
    kani::assume(size > N && size <= 65535);
    check_zts(&buf[..len], size);
}

// ---- discharge of the dependency contracts assumed by the Verus nom shim ----

/// nom::bytes::streaming::take
#[kani::proof]
#[kani::stub(alloc::fmt::format, fmt_stub)]
#[kani::unwind(8)]
fn c19_dep_nom_take() {
    const N: usize = 6;
    let buf: [u8; N] = kani::any();
    let len: usize = kani::any();
    kani::assume(len <= N);
    let count: usize = kani::any();
    kani::assume(count <= 70000);
    let i = &buf[..len];
    let r: nom::IResult<&[u8], &[u8], DltParseError> = nom::bytes::streaming::take(count)(i);
    if len >= count {
        match r {
            Ok((rest, out)) => {
                assert!(bytes_eq(out, &i[..count]));
                assert!(bytes_eq(rest, &i[count..]));
            }
            Err(_) => { assert!(false); }
        }
    } else {
        match r {
            Err(nom::Err::Incomplete(nom::Needed::Size(n))) => { assert!(n.get() == count - len); }
            _ => { assert!(false); }
        }
    }
}

fn not_nul(c: u8) -> bool {
    c != 0
}

/// nom::bytes::streaming::take_while_m_n(0, n, != 0)
#[kani::proof]
#[kani::stub(alloc::fmt::format, fmt_stub)]
#[kani::unwind(9)]
fn c19_dep_nom_twmn() {
    const N: usize = 6;
    let buf: [u8; N] = kani::any();
    let len: usize = kani::any();
    kani::assume(len <= N);
    let n: usize = kani::any();
    kani::assume(n <= 70000);
    let i = &buf[..len];
    let r: nom::IResult<&[u8], &[u8], DltParseError> = nom::bytes::streaming::take_while_m_n(0, n, not_nul)(i);
    let k = ref_first_nul(i);
    if k < len || len >= n {
        let c = if k < n { k } else { n };
        match r {
            Ok((rest, out)) => {
                assert!(bytes_eq(out, &i[..c]));
                assert!(bytes_eq(rest, &i[c..]));
            }
            Err(_) => { assert!(false); }
        }
    } else {
        match r {
            Err(nom::Err::Incomplete(nom::Needed::Size(x))) => { assert!(x.get() == 1); }
            _ => { assert!(false); }
        }
    }
}

/// core::str::from_utf8 / Utf8Error::valid_up_to = longest well-formed prefix; the prefix is
/// itself valid (idempotence axiom of the shim)
#[kani::proof]
#[kani::unwind(8)]
fn c19_dep_utf8_prefix() {
    const N: usize = 5;
    let buf: [u8; N] = kani::any();
    let len: usize = kani::any();
    kani::assume(len <= N);
    let s = &buf[..len];
    let p = ref_utf8_prefix_len(s);
    assert!(p <= len);
    match core::str::from_utf8(s) {
        Ok(t) => {
            assert!(p == len);
            assert!(bytes_eq(t.as_bytes(), s));
        }
        Err(e) => {
            assert!(p < len);
            assert!(e.valid_up_to() == p);
            assert!(core::str::from_utf8(&s[..p]).is_ok());
            assert!(ref_utf8_prefix_len(&s[..p]) == p);
        }
    }
}
