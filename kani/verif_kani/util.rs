//! Shared helpers: stubs (each one is an *assumption*, listed in the evidence) and generators.

/// Stub for `alloc::fmt::format`: error-message texts are not part of any property, and the
/// real formatting machinery (Debug/PadAdapter recursion) does not terminate in CBMC.
pub fn fmt_stub(_args: core::fmt::Arguments<'_>) -> String {
    String::new()
}

/// Stub for `memchr::memmem::Finder::find` (the real one dispatches on CPUID, which Kani cannot
/// execute). Assumed contract: index of the first occurrence of the needle, `None` iff absent.
/// Written for the only needle the crate uses (`DLT_PATTERN`, 4 bytes).
pub fn find_stub(_f: &memchr::memmem::Finder<'_>, haystack: &[u8]) -> Option<usize> {
    let needle = crate::parse::DLT_PATTERN;
    let n = haystack.len();
    if n < 4 {
        return None;
    }
    let mut i = 0;
    while i + 4 <= n {
        if haystack[i] == needle[0]
            && haystack[i + 1] == needle[1]
            && haystack[i + 2] == needle[2]
            && haystack[i + 3] == needle[3]
        {
            return Some(i);
        }
        i += 1;
    }
    None
}

/// bytes equal (no Debug, no iterator adaptors)
pub fn bytes_eq(a: &[u8], b: &[u8]) -> bool {
    if a.len() != b.len() {
        return false;
    }
    let mut i = 0;
    while i < a.len() {
        if a[i] != b[i] {
            return false;
        }
        i += 1;
    }
    true
}
