//! Shared helpers: stubs (each one is an *assumption*, listed in the evidence) and generators.

/// Stub for `alloc::fmt::format`: error-message texts are not part of any property, and the
/// real formatting machinery (Debug/PadAdapter recursion) does not terminate in CBMC.
pub fn fmt_stub(_args: core::fmt::Arguments<'_>) -> String {
    String::new()
}

/// Stubs for `memchr::arch::x86_64::{avx2,sse2}::packedpair::Finder::is_available` (runtime CPU
/// feature detection via CPUID, which Kani cannot execute): answer "no SIMD". The real memmem
/// code then takes its scalar path (Rabin-Karp / Two-Way), which IS verified. Assumption: the
/// SIMD paths of memchr return what its scalar path returns.
pub fn no_simd() -> bool {
    false
}

/// reference: index of the first occurrence of DLT_PATTERN
pub fn ref_find_pattern(haystack: &[u8]) -> Option<usize> {
    let n = haystack.len();
    let mut i = 0;
    while i + 4 <= n {
        if haystack[i] == 0x44 && haystack[i + 1] == 0x4C && haystack[i + 2] == 0x54 && haystack[i + 3] == 0x01 {
            return Some(i);
        }
        i += 1;
    }
    None
}

/// bytes equal (no Debug, no iterator adaptors)
pub fn bytes_eq(a: &[u8], b: &[u8]) -> bool {
    if a.len() != b.len() {
        return false;
    }
    let mut i = 0;
    while i < a.len() {
        if a[i] != b[i] {
            return false;
        }
        i += 1;
    }
    true
}

/// Stub for the CPUID instruction (inline asm, not executable by Kani): reports a CPU without
/// any optional feature, so std's `is_x86_feature_detected!` answers false and memchr takes its
/// baseline paths. Assumption: memchr's AVX2 paths return what its baseline paths return.
pub fn cpuid_count_stub(_leaf: u32, _sub_leaf: u32) -> core::arch::x86_64::CpuidResult {
    core::arch::x86_64::CpuidResult { eax: 0, ebx: 0, ecx: 0, edx: 0 }
}
pub fn cpuid_stub(_leaf: u32) -> core::arch::x86_64::CpuidResult {
    core::arch::x86_64::CpuidResult { eax: 0, ebx: 0, ecx: 0, edx: 0 }
}

/// Stub for `crate::parse::forward_to_next_storage_header` used by the message-level
/// harnesses: it IS the contract of that function (first occurrence of DLT_PATTERN, None iff
/// absent, rest = input from the occurrence on), which the harnesses c06_forward_* prove for the
/// real function on the real memchr code. Modular: callers are checked against the contract.
pub fn fwd_stub(input: &[u8]) -> Option<(u64, &[u8])> {
    match ref_find_pattern(input) {
        Some(k) => Some((k as u64, &input[k..])),
        None => None,
    }
}

/// cell-by-cell assignment of constant bytes. NOT `copy_from_slice`: a memcpy into a symbolic
/// array turns every later read of that array (also of untouched cells) into a byte-extract term
/// and CBMC loses the constants (measured: dlt_message on an 18-byte buffer went from "does not
/// finish" to seconds).
pub fn set_bytes(buf: &mut [u8], off: usize, src: &[u8]) {
    let mut i = 0;
    while i < src.len() {
        buf[off + i] = src[i];
        i += 1;
    }
}
