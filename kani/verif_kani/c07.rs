//! C07 — the blocking reader equals slice parsing for every fragmentation of the source.
//! dlt-core has no fragmentation logic of its own (BufReader + read_exact absorb short and
//! interrupted reads); the harnesses run the REAL reader + real BufReader over a source that
//! fragments by a policy (at most C bytes per read, one Interrupted error before a symbolic call
//! index) and compare two consecutive `next_message_slice` calls with the reference cut of the
//! stream at the declared lengths.
use super::util::*;
use crate::parse::*;
use crate::read::*;
use std::io::Read;

pub struct Src<const N: usize, const C: usize> {
    pub data: [u8; N],
    pub len: usize,
    pub pos: usize,
    pub intr_at: usize,
    pub calls: usize,
}

impl<const N: usize, const C: usize> Read for Src<N, C> {
    fn read(&mut self, buf: &mut [u8]) -> std::io::Result<usize> {
        let call = self.calls;
        self.calls += 1;
        if call == self.intr_at {
            return Err(std::io::Error::from(std::io::ErrorKind::Interrupted));
        }
        let remaining = self.len - self.pos;
        let mut k = if buf.len() < remaining { buf.len() } else { remaining };
        if k > C {
            k = C;
        }
        let mut i = 0;
        while i < k {
            buf[i] = self.data[self.pos + i];
            i += 1;
        }
        self.pos += k;
        Ok(k)
    }
}

#[derive(PartialEq, Clone, Copy)]
pub enum Expect {
    End,
    Slice(usize, usize),
    Error,
}

/// reference: cut the stream at the declared length (no storage header): fewer than 4 bytes left
/// => end of stream; LEN < 4 (shorter than its own header) or truncated body => error
pub fn ref_next(stream: &[u8], pos: usize) -> Expect {
    let left = stream.len() - pos;
    if left < 4 {
        return Expect::End;
    }
    let len = u16::from_be_bytes([stream[pos + 2], stream[pos + 3]]) as usize;
    if len < 4 {
        return Expect::Error;
    }
    if len > left {
        return Expect::Error;
    }
    Expect::Slice(pos, pos + len)
}

pub fn check_reader<const N: usize, const C: usize>(max_len: usize) {
    let data: [u8; N] = kani::any();
    let len: usize = kani::any();
    kani::assume(len <= N);
    let intr_at: usize = kani::any();
    // declared lengths fit the reader's buffer (with_capacity is the caller's promise; `new`
    // sizes the buffer for every 16-bit length)
    if len >= 4 {
        kani::assume(u16::from_be_bytes([data[2], data[3]]) as usize <= max_len);
    }
    let src = Src::<N, C> { data, len, pos: 0, intr_at, calls: 0 };
    let mut reader = DltMessageReader::with_capacity(max_len, max_len, src, false);
    let stream = &data[..len];
    let e1 = ref_next(stream, 0);
    let mut pos = 0;
    match reader.next_message_slice() {
        Ok(s) => {
            if s.len() == 0 {
                assert!(e1 == Expect::End);
            } else {
                match e1 {
                    Expect::Slice(a, b) => {
                        assert!(bytes_eq(s, &stream[a..b]));
                        pos = b;
                    }
                    _ => { assert!(false); }
                }
            }
        }
        Err(_) => { assert!(e1 == Expect::Error); }
    }
    if let Expect::Slice(_, _) = e1 {
        let left = len - pos;
        if left >= 4 {
            kani::assume(u16::from_be_bytes([data[pos + 2], data[pos + 3]]) as usize <= max_len);
        }
        let e2 = ref_next(stream, pos);
        match reader.next_message_slice() {
            Ok(s) => {
                if s.len() == 0 {
                    assert!(e2 == Expect::End);
                } else {
                    match e2 {
                        Expect::Slice(a, b) => { assert!(bytes_eq(s, &stream[a..b])); }
                        _ => { assert!(false); }
                    }
                }
            }
            Err(_) => { assert!(e2 == Expect::Error); }
        }
    }
}

// ---- constant-shape reader cases: stream length N, first declared length L1, chunk size C and
// the interrupted call index are CONSTANTS per harness (symbolic copy sizes inside BufReader do
// not finish in CBMC: measured > 16 GB); the remaining stream bytes are symbolic.
pub fn reader_case<const N: usize, const C: usize>(l1: u16, intr_at: usize) {
    let mut data: [u8; N] = kani::any();
    if N >= 4 {
        let b = l1.to_be_bytes();
        data[2] = b[0];
        data[3] = b[1];
    }
    let src = Src::<N, C> { data, len: N, pos: 0, intr_at, calls: 0 };
    let mut reader = DltMessageReader::with_capacity(16, 16, src, false);
    let stream = &data[..];
    let e1 = ref_next(stream, 0);
    match reader.next_message_slice() {
        Ok(s) => {
            if s.len() == 0 {
                assert!(e1 == Expect::End);
            } else {
                match e1 {
                    Expect::Slice(a, b) => { assert!(bytes_eq(s, &stream[a..b])); }
                    _ => { assert!(false); }
                }
            }
        }
        Err(_) => { assert!(e1 == Expect::Error); }
    }
}

macro_rules! reader_harness {
    ($name:ident, $n:expr, $c:expr, $l1:expr, $intr:expr) => {
        #[kani::proof]
        #[kani::stub(alloc::fmt::format, fmt_stub)]
        #[kani::unwind(20)]
        fn $name() {
            reader_case::<$n, $c>($l1, $intr);
        }
    };
}
// one read: (stream length, bytes per read(), declared length, index of the interrupted read() call; 99 = none)
reader_harness!(c07_case_n0_c1, 0, 1, 0, 99);
reader_harness!(c07_case_n3_c2, 3, 2, 0, 0);
reader_harness!(c07_case_n4_c1_l4_i1, 4, 1, 4, 1);
reader_harness!(c07_case_n6_c1_l6_i2, 6, 1, 6, 2);
reader_harness!(c07_case_n6_c2_l6_i0, 6, 2, 6, 0);
reader_harness!(c07_case_n6_c3_l6, 6, 3, 6, 99);
reader_harness!(c07_case_n6_c100_l6_i0, 6, 100, 6, 0);
reader_harness!(c07_case_n8_c3_l5_i1, 8, 3, 5, 1);
// declared length shorter than the header: an error, never a panic
reader_harness!(c07_case_n6_c100_l3, 6, 100, 3, 99);
reader_harness!(c07_case_n6_c1_l0_i1, 6, 1, 0, 1);
// truncated body: an error, never a message
reader_harness!(c07_case_n6_c4_l9_i1, 6, 4, 9, 1);
reader_harness!(c07_case_n5_c2_l6, 5, 2, 6, 99);

/// two consecutive reads: the second message starts exactly where the first one ended
pub fn reader_case2<const N: usize, const C: usize>(l1: u16, l2: u16, intr_at: usize) {
    let mut data: [u8; N] = kani::any();
    let b = l1.to_be_bytes();
    data[2] = b[0];
    data[3] = b[1];
    let p = l1 as usize;
    if p + 4 <= N {
        let b = l2.to_be_bytes();
        data[p + 2] = b[0];
        data[p + 3] = b[1];
    }
    let src = Src::<N, C> { data, len: N, pos: 0, intr_at, calls: 0 };
    let mut reader = DltMessageReader::with_capacity(16, 16, src, false);
    let stream = &data[..];
    match reader.next_message_slice() {
        Ok(s) => { assert!(bytes_eq(s, &stream[..p])); }
        Err(_) => { assert!(false); }
    }
    let e2 = ref_next(stream, p);
    match reader.next_message_slice() {
        Ok(s) => {
            if s.len() == 0 {
                assert!(e2 == Expect::End);
            } else {
                match e2 {
                    Expect::Slice(a, b) => { assert!(bytes_eq(s, &stream[a..b])); }
                    _ => { assert!(false); }
                }
            }
        }
        Err(_) => { assert!(e2 == Expect::Error); }
    }
}

macro_rules! reader2_harness {
    ($name:ident, $n:expr, $c:expr, $l1:expr, $l2:expr, $intr:expr) => {
        #[kani::proof]
        #[kani::stub(alloc::fmt::format, fmt_stub)]
        #[kani::unwind(20)]
        fn $name() {
            reader_case2::<$n, $c>($l1, $l2, $intr);
        }
    };
}
reader2_harness!(c07_two_n10_c1_l4_l6_i5, 10, 1, 4, 6, 5);
reader2_harness!(c07_two_n10_c3_l6_l4, 10, 3, 6, 4, 99);
reader2_harness!(c07_two_n10_c100_l4_l9_i1, 10, 100, 4, 9, 1);
reader2_harness!(c07_two_n7_c2_l5, 7, 2, 5, 0, 2);
reader2_harness!(c07_two_n9_c4_l5_l2, 9, 4, 5, 2, 99);

/// with storage header: the 16 storage bytes are part of the delivered slice and the length
/// field is read behind them
pub fn reader_case_storage<const N: usize, const C: usize>(l1: u16, intr_at: usize) {
    let mut data: [u8; N] = kani::any();
    if N >= 20 {
        let b = l1.to_be_bytes();
        data[18] = b[0];
        data[19] = b[1];
    }
    let src = Src::<N, C> { data, len: N, pos: 0, intr_at, calls: 0 };
    let mut reader = DltMessageReader::with_capacity(32, 32, src, true);
    let stream = &data[..];
    let total = 16 + l1 as usize;
    match reader.next_message_slice() {
        Ok(s) => {
            if s.len() == 0 {
                assert!(N < 20);
            } else {
                assert!(N >= 20 && l1 >= 4 && total <= N);
                assert!(bytes_eq(s, &stream[..total]));
            }
        }
        Err(_) => { assert!(N >= 20 && (l1 < 4 || total > N)); }
    }
}

macro_rules! reader_sto_harness {
    ($name:ident, $n:expr, $c:expr, $l1:expr, $intr:expr) => {
        #[kani::proof]
        #[kani::stub(alloc::fmt::format, fmt_stub)]
        #[kani::unwind(40)]
        fn $name() {
            reader_case_storage::<$n, $c>($l1, $intr);
        }
    };
}
// (with storage header only whole-buffer reads without interrupt finish: 22 bytes at 5 or 12 per
// read, or one interrupt, ran into the 400-600 s limit)
reader_sto_harness!(c07_sto_n24_c100_l4, 24, 100, 4, 99);
reader_sto_harness!(c07_sto_n19_c100, 19, 100, 0, 99);
reader_sto_harness!(c07_sto_n21_c100_l8, 21, 100, 8, 99);
reader_sto_harness!(c07_sto_n22_c100_l3, 22, 100, 3, 99);
