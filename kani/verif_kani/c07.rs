//! C07 — the blocking reader equals slice parsing for every fragmentation of the source.
//! dlt-core has no fragmentation logic of its own (BufReader + read_exact absorb short and
//! interrupted reads); the harnesses run the REAL reader + real BufReader over a source that
//! fragments by a policy (at most C bytes per read, one Interrupted error before a symbolic call
//! index) and compare two consecutive `next_message_slice` calls with the reference cut of the
//! stream at the declared lengths.
use super::util::*;
use crate::parse::*;
use crate::read::*;
use std::io::Read;

pub struct Src<const N: usize, const C: usize> {
    pub data: [u8; N],
    pub len: usize,
    pub pos: usize,
    pub intr_at: usize,
    pub calls: usize,
}

impl<const N: usize, const C: usize> Read for Src<N, C> {
    fn read(&mut self, buf: &mut [u8]) -> std::io::Result<usize> {
        let call = self.calls;
        self.calls += 1;
        if call == self.intr_at {
            return Err(std::io::Error::from(std::io::ErrorKind::Interrupted));
        }
        let remaining = self.len - self.pos;
        let mut k = if buf.len() < remaining { buf.len() } else { remaining };
        if k > C {
            k = C;
        }
        let mut i = 0;
        while i < k {
            buf[i] = self.data[self.pos + i];
            i += 1;
        }
        self.pos += k;
        Ok(k)
    }
}

#[derive(PartialEq, Clone, Copy)]
pub enum Expect {
    End,
    Slice(usize, usize),
    Error,
}

/// reference: cut the stream at the declared length (no storage header): fewer than 4 bytes left
/// => end of stream; LEN < 4 (shorter than its own header) or truncated body => error
pub fn ref_next(stream: &[u8], pos: usize) -> Expect {
    let left = stream.len() - pos;
    if left < 4 {
        return Expect::End;
    }
    let len = u16::from_be_bytes([stream[pos + 2], stream[pos + 3]]) as usize;
    if len < 4 {
        return Expect::Error;
    }
    if len > left {
        return Expect::Error;
    }
    Expect::Slice(pos, pos + len)
}

pub fn check_reader<const N: usize, const C: usize>(max_len: usize) {
    let data: [u8; N] = kani::any();
    let len: usize = kani::any();
    kani::assume(len <= N);
    let intr_at: usize = kani::any();
    // declared lengths fit the reader's buffer (with_capacity is the caller's promise; `new`
    // sizes the buffer for every 16-bit length)
    if len >= 4 {
        kani::assume(u16::from_be_bytes([data[2], data[3]]) as usize <= max_len);
    }
    let src = Src::<N, C> { data, len, pos: 0, intr_at, calls: 0 };
    let mut reader = DltMessageReader::with_capacity(max_len, max_len, src, false);
    let stream = &data[..len];
    let e1 = ref_next(stream, 0);
    let mut pos = 0;
    match reader.next_message_slice() {
        Ok(s) => {
            if s.len() == 0 {
                assert!(e1 == Expect::End);
            } else {
                match e1 {
                    Expect::Slice(a, b) => {
                        assert!(bytes_eq(s, &stream[a..b]));
                        pos = b;
                    }
                    _ => { assert!(false); }
                }
            }
        }
        Err(_) => { assert!(e1 == Expect::Error); }
    }
    if let Expect::Slice(_, _) = e1 {
        let left = len - pos;
        if left >= 4 {
            kani::assume(u16::from_be_bytes([data[pos + 2], data[pos + 3]]) as usize <= max_len);
        }
        let e2 = ref_next(stream, pos);
        match reader.next_message_slice() {
            Ok(s) => {
                if s.len() == 0 {
                    assert!(e2 == Expect::End);
                } else {
                    match e2 {
                        Expect::Slice(a, b) => { assert!(bytes_eq(s, &stream[a..b])); }
                        _ => { assert!(false); }
                    }
                }
            }
            Err(_) => { assert!(e2 == Expect::Error); }
        }
    }
}

#[kani::proof]
#[kani::stub(alloc::fmt::format, fmt_stub)]
#[kani::unwind(12)]
fn c07_reader_whole_n8() {
    check_reader::<8, 1000>(8);
}

#[kani::proof]
#[kani::stub(alloc::fmt::format, fmt_stub)]
#[kani::unwind(12)]
fn c07_reader_chunk1_n8() {
    check_reader::<8, 1>(8);
}

#[kani::proof]
#[kani::stub(alloc::fmt::format, fmt_stub)]
#[kani::unwind(12)]
fn c07_reader_chunk3_n8() {
    check_reader::<8, 3>(8);
}

#[kani::proof]
#[kani::stub(alloc::fmt::format, fmt_stub)]
#[kani::unwind(16)]
fn c07_reader_chunk2_n12() {
    check_reader::<12, 2>(12);
}

/// read_message == dlt_message of the piece
#[kani::proof]
#[kani::stub(alloc::fmt::format, fmt_stub)]
#[kani::unwind(12)]
fn c07_read_message_n8() {
    const N: usize = 8;
    let data: [u8; N] = kani::any();
    let len: usize = kani::any();
    kani::assume(len <= N);
    if len >= 4 {
        kani::assume(u16::from_be_bytes([data[2], data[3]]) as usize <= N);
    }
    let src = Src::<N, 2> { data, len, pos: 0, intr_at: kani::any(), calls: 0 };
    let mut reader = DltMessageReader::with_capacity(N, N, src, false);
    let stream = &data[..len];
    let r = read_message(&mut reader, None);
    match ref_next(stream, 0) {
        Expect::End => { assert!(matches!(r, Ok(None))); }
        Expect::Error => { assert!(r.is_err()); }
        Expect::Slice(a, b) => {
            let direct = dlt_message(&stream[a..b], None, false);
            match (r, direct) {
                (Ok(Some(ParsedMessage::Item(m1))), Ok((_, ParsedMessage::Item(m2)))) => {
                    assert!(super::gen::message_eq(&m1, &m2));
                }
                (Ok(Some(ParsedMessage::Invalid)), Ok((_, ParsedMessage::Invalid))) => {}
                (Err(_), Err(_)) => {}
                _ => { assert!(false); }
            }
        }
    }
}
