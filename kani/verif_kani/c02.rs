//! C02 — writer and parser agree with an independent reference codec (refcodec.rs).
//! Decoding side, leaf level: every header parser is compared with the reference decoder over
//! ALL inputs of the header's size (complete for the fixed-size domain).
use super::c14::*;
use super::c19::{ref_first_nul, ref_utf8_prefix_len};
use super::gen::*;
use super::refcodec::*;
use super::util::*;
use crate::dlt::*;
use crate::parse::*;

/// reference value of a 4-byte id field: longest well-formed UTF-8 prefix before the first NUL
pub fn id_field_matches(text: &str, field: &[u8]) -> bool {
    let k = ref_first_nul(field);
    let p = ref_utf8_prefix_len(&field[..k]);
    bytes_eq(text.as_bytes(), &field[..p])
}

/// all 2^128 inputs of 16 bytes: verdict (reject <=> LEN < header lengths), consumed length,
/// every field value, and re-encoding of HTYP
#[kani::proof]
#[kani::stub(alloc::fmt::format, fmt_stub)]
#[kani::unwind(14)]
fn c02_dec_std_header() {
    let buf: [u8; 16] = kani::any();
    let h = buf[0];
    let len = u16::from_be_bytes([buf[2], buf[3]]);
    let std_len = ref_std_header_len(h) as usize;
    let all_len = ref_all_headers_len(h);
    match dlt_standard_header(&buf) {
        Ok((rest, hdr)) => {
            assert!(len >= all_len);
            assert!(bytes_eq(rest, &buf[std_len..]));
            assert!(hdr.version == h >> 5);
            assert!(hdr.has_extended_header == (h & UEH != 0));
            assert!((hdr.endianness == Endianness::Big) == (h & MSBF != 0));
            assert!(hdr.message_counter == buf[1]);
            assert!(hdr.payload_length == len - all_len);
            let mut off = 4;
            match &hdr.ecu_id {
                Some(id) => {
                    assert!(h & WEID != 0);
                    assert!(id_field_matches(id, &buf[off..off + 4]));
                    off += 4;
                }
                None => { assert!(h & WEID == 0); }
            }
            match hdr.session_id {
                Some(s) => {
                    assert!(h & WSID != 0);
                    assert!(s == u32::from_be_bytes([buf[off], buf[off + 1], buf[off + 2], buf[off + 3]]));
                    off += 4;
                }
                None => { assert!(h & WSID == 0); }
            }
            match hdr.timestamp {
                Some(s) => {
                    assert!(h & WTMS != 0);
                    assert!(s == u32::from_be_bytes([buf[off], buf[off + 1], buf[off + 2], buf[off + 3]]));
                    off += 4;
                }
                None => { assert!(h & WTMS == 0); }
            }
            assert!(off == std_len);
            assert!(hdr.header_type_byte() == h);
            assert!(hdr.overall_length() == len);
        }
        Err(nom::Err::Error(_)) => { assert!(len < all_len); }
        Err(_) => { assert!(false); }
    }
}

/// truncated standard headers: every proper prefix of the header bytes is Incomplete
#[kani::proof]
#[kani::stub(alloc::fmt::format, fmt_stub)]
#[kani::unwind(14)]
fn c02_dec_std_header_truncated() {
    let buf: [u8; 16] = kani::any();
    let n: usize = kani::any();
    kani::assume(n <= 16);
    let h = buf[0];
    let std_len = ref_std_header_len(h) as usize;
    kani::assume(n == 0 || n < std_len);
    match dlt_standard_header(&buf[..n]) {
        Err(nom::Err::Incomplete(nom::Needed::Size(k))) => {
            // a hint never exceeds what is missing for the standard header
            assert!(k.get() >= 1 && (n == 0 || k.get() <= std_len - n));
        }
        Err(nom::Err::Incomplete(nom::Needed::Unknown)) => {}
        _ => { assert!(false); }
    }
}

/// all 2^80 inputs of 10 bytes
#[kani::proof]
#[kani::stub(alloc::fmt::format, fmt_stub)]
#[kani::unwind(12)]
fn c02_dec_ext_header() {
    let buf: [u8; 10] = kani::any();
    match dlt_extended_header(&buf) {
        Ok((rest, e)) => {
            assert!(rest.len() == 0);
            assert!(e.verbose == (buf[0] & 1 != 0));
            assert!(e.argument_count == buf[1]);
            assert!(ref_msin_ok(buf[0], &e.message_type));
            assert!(id_field_matches(&e.application_id, &buf[2..6]));
            assert!(id_field_matches(&e.context_id, &buf[6..10]));
            // re-encoding of MSIN
            assert!((u8::from(&e.message_type) | (e.verbose as u8)) == buf[0]);
        }
        Err(_) => { assert!(false); }
    }
}

/// all inputs of 16 bytes that start with the storage pattern (search stubbed, see util.rs)
#[kani::proof]
#[kani::stub(alloc::fmt::format, fmt_stub)]
#[kani::stub(crate::parse::forward_to_next_storage_header, fwd_stub)]
#[kani::unwind(15)]
fn c02_dec_sto_header() {
    let mut buf: [u8; 16] = kani::any();
    buf[0] = b'D';
    buf[1] = b'L';
    buf[2] = b'T';
    buf[3] = 1;
    match dlt_storage_header(&buf) {
        Ok((rest, Some((sh, shift)))) => {
            assert!(shift == 0);
            assert!(rest.len() == 0);
            assert!(sh.timestamp.seconds == u32::from_le_bytes([buf[4], buf[5], buf[6], buf[7]]));
            assert!(sh.timestamp.microseconds == u32::from_le_bytes([buf[8], buf[9], buf[10], buf[11]]));
            assert!(id_field_matches(&sh.ecu_id, &buf[12..16]));
        }
        _ => { assert!(false); }
    }
}

/// type info through the parser entry point in both byte orders, all 2^32 words
#[kani::proof]
#[kani::stub(alloc::fmt::format, fmt_stub)]
fn c02_dec_type_info() {
    let w: u32 = kani::any();
    let be = w.to_be_bytes();
    let le = w.to_le_bytes();
    let rb = dlt_type_info::<byteorder::BigEndian>(&be);
    let rl = dlt_type_info::<byteorder::LittleEndian>(&le);
    let reference = ref_decode_type_info(w);
    match (rb, rl, reference) {
        (Ok((r1, t1)), Ok((r2, t2)), Some(r)) => {
            assert!(r1.len() == 0 && r2.len() == 0);
            assert!(t1 == t2);
            assert!(same_kind(&t1.kind, r.kind));
            assert!(same_coding(&t1.coding, r.scod));
            assert!(t1.has_variable_info == r.vari && t1.has_trace_info == r.trai);
        }
        (Err(nom::Err::Error(_)), Err(nom::Err::Error(_)), None) => {}
        _ => { assert!(false); }
    }
}

/// network-trace payload writer == reference layout in BOTH byte orders (each slice is a
/// raw-data argument: type info RAWD in the message byte order, 16-bit length, bytes)
#[kani::proof]
#[kani::stub(alloc::fmt::format, fmt_stub)]
#[kani::unwind(14)]
fn c02_enc_nwtrace() {
    let p = PayloadContent::NetworkTrace(vec![bytes_exact::<2>()]);
    if kani::any() {
        let b = p.as_bytes::<byteorder::BigEndian>();
        let mut o = Out::new();
        ref_put_payload(&mut o, &p, true);
        assert!(o.eq_bytes(&b));
    } else {
        let b = p.as_bytes::<byteorder::LittleEndian>();
        let mut o = Out::new();
        ref_put_payload(&mut o, &p, false);
        assert!(o.eq_bytes(&b));
    }
}
