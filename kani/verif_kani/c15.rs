//! C15 — computed lengths equal serialised lengths; built messages are self-consistent.
//! (Argument::len / valid are proved unbounded by the Verus unit c15_arglen; len() ==
//! as_bytes().len() is asserted for every kind inside the c01_arg_* harnesses.)
use super::c01::*;
use super::gen::*;
use super::refcodec::*;
use super::util::*;
use crate::dlt::*;
use crate::parse::*;

/// Message::new self-consistency for one payload value (all sizes concrete per harness):
///  * payload_length == serialised payload == reference encoding of the payload in the
///    configured byte order (so the message "fits" exactly what it announces)
///  * byte_len() == header lengths + payload_length
///  * verbose flag and argument count as the payload kind requires
///  * header fields copied from the configuration
/// "Parses back to an equal message" then follows from the layer contracts (C01 header /
/// argument round trips, payload writer == reference layout, Verus unit c04_message: the
/// parser consumes exactly LEN and hands exactly the declared payload to the payload parser).
fn check_new(payload: PayloadContent, big: bool, want_verbose: bool, want_noar: u8, ext_type: Option<MessageType>) {
    let endianness = if big { Endianness::Big } else { Endianness::Little };
    let v: u8 = kani::any();
    kani::assume(v <= 7);
    let has_ext = ext_type.is_some();
    let counter: u8 = kani::any();
    let session: Option<u32> = if kani::any() { Some(kani::any()) } else { None };
    let timestamp: Option<u32> = if kani::any() { Some(kani::any()) } else { None };
    let with_ecu: bool = kani::any();
    let conf = MessageConfig {
        version: v,
        counter,
        endianness,
        ecu_id: if with_ecu { Some(ascii_exact::<3>()) } else { None },
        session_id: session,
        timestamp,
        payload: payload.clone(),
        extended_header_info: ext_type.map(|t| ExtendedHeaderConfig {
            message_type: t,
            app_id: ascii_exact::<2>(),
            context_id: ascii_exact::<4>(),
        }),
    };
    let m = Message::new(conf, None);
    // payload length recorded == serialised payload == reference layout
    let pb = if big { payload.as_bytes::<byteorder::BigEndian>() } else { payload.as_bytes::<byteorder::LittleEndian>() };
    let mut o = Out::new();
    ref_put_payload(&mut o, &payload, big);
    assert!(o.eq_bytes(&pb));
    assert!(m.header.payload_length as usize == pb.len());
    // byte_len == all headers + payload
    let hl = 4 + (if with_ecu { 4 } else { 0 }) + (if session.is_some() { 4 } else { 0 }) + (if timestamp.is_some() { 4 } else { 0 }) + (if has_ext { 10 } else { 0 });
    assert!(m.byte_len() as usize == hl + pb.len());
    assert!(m.header.has_extended_header == has_ext);
    assert!(m.header.version == v && m.header.message_counter == counter);
    assert!(m.header.session_id == session && m.header.timestamp == timestamp);
    assert!(m.header.ecu_id.is_some() == with_ecu);
    assert!(m.header.endianness == endianness);
    assert!(m.extended_header.is_some() == has_ext);
    if let Some(e) = &m.extended_header {
        // verbose flag and argument count that the payload kind requires
        assert!(e.verbose == want_verbose);
        assert!(e.argument_count == want_noar);
    }
    assert!(payload_eq(&m.payload, &payload));
}

fn check_new_orders(payload: PayloadContent, want_verbose: bool, want_noar: u8, ext_type: Option<MessageType>) {
    if kani::any() {
        check_new(payload, true, want_verbose, want_noar, ext_type)
    } else {
        check_new(payload, false, want_verbose, want_noar, ext_type)
    }
}

#[kani::proof]
#[kani::stub(alloc::fmt::format, fmt_stub)]
#[kani::unwind(20)]
fn c15_new_nonverbose() {
    let p = PayloadContent::NonVerbose(kani::any(), bytes_exact::<2>());
    check_new_orders(p, false, 0, Some(MessageType::Log(LogLevel::Debug)));
}

#[kani::proof]
#[kani::stub(alloc::fmt::format, fmt_stub)]
#[kani::unwind(20)]
fn c15_new_nonverbose_noext() {
    let p = PayloadContent::NonVerbose(kani::any(), bytes_exact::<3>());
    check_new_orders(p, false, 0, None);
}

#[kani::proof]
#[kani::stub(alloc::fmt::format, fmt_stub)]
#[kani::unwind(20)]
fn c15_new_control() {
    let p = PayloadContent::ControlMsg(ControlType::from_value(kani::any()), bytes_exact::<2>());
    check_new_orders(p, false, 0, Some(MessageType::Control(ControlType::Response)));
}

fn i16_arg() -> Argument {
    Argument {
        type_info: TypeInfo { kind: TypeInfoKind::Signed(TypeLength::BitLength16), coding: StringCoding::UTF8, has_variable_info: false, has_trace_info: false },
        name: None,
        unit: None,
        fixed_point: None,
        value: Value::I16(kani::any()),
    }
}

#[kani::proof]
#[kani::stub(alloc::fmt::format, fmt_stub)]
#[kani::unwind(20)]
fn c15_new_verbose0() {
    check_new_orders(PayloadContent::Verbose(Vec::new()), true, 0, Some(MessageType::Log(LogLevel::Info)));
}

#[kani::proof]
#[kani::stub(alloc::fmt::format, fmt_stub)]
#[kani::unwind(20)]
fn c15_new_verbose1() {
    check_new_orders(PayloadContent::Verbose(vec![i16_arg()]), true, 1, Some(MessageType::Log(LogLevel::Info)));
}

/// network trace: serialised as raw-data arguments, so the message must be marked verbose with
/// one argument per slice for it to parse back
#[kani::proof]
#[kani::stub(alloc::fmt::format, fmt_stub)]
#[kani::unwind(20)]
fn c15_new_nwtrace1() {
    check_new_orders(PayloadContent::NetworkTrace(vec![bytes_exact::<2>()]), true, 1, Some(MessageType::NetworkTrace(NetworkTraceType::Can)));
}

#[kani::proof]
#[kani::stub(alloc::fmt::format, fmt_stub)]
#[kani::unwind(20)]
fn c15_new_nwtrace2() {
    check_new_orders(PayloadContent::NetworkTrace(vec![bytes_exact::<2>(), bytes_exact::<0>()]), true, 2, Some(MessageType::NetworkTrace(NetworkTraceType::Someip)));
}

/// add_storage_header(Some(ts)) only prepends a storage header carrying ts and the header ECU id
/// (or the default id "ECU"); everything else is untouched
#[kani::proof]
#[kani::stub(alloc::fmt::format, fmt_stub)]
#[kani::unwind(20)]
fn c15_add_storage_header() {
    let with_ecu: bool = kani::any();
    let h = StandardHeader {
        version: 1,
        endianness: any_endianness(),
        has_extended_header: false,
        message_counter: kani::any(),
        ecu_id: if with_ecu { Some(ascii_exact::<4>()) } else { None },
        session_id: None,
        timestamp: None,
        payload_length: 6,
    };
    let id_bytes: Option<Vec<u8>> = h.ecu_id.as_ref().map(|s| s.as_bytes().to_vec());
    let counter = h.message_counter;
    let id: u32 = kani::any();
    let m = Message { storage_header: None, header: h, extended_header: None, payload: PayloadContent::NonVerbose(id, bytes_exact::<2>()) };
    let ts = DltTimeStamp { seconds: kani::any(), microseconds: kani::any() };
    let (s, us) = (ts.seconds, ts.microseconds);
    let m3 = m.add_storage_header(Some(ts));
    assert!(m3.header.message_counter == counter && m3.header.payload_length == 6 && m3.header.ecu_id.is_some() == with_ecu);
    assert!(m3.extended_header.is_none());
    assert!(matches!(&m3.payload, PayloadContent::NonVerbose(i, d) if *i == id && d.len() == 2));
    match &m3.storage_header {
        Some(sh) => {
            assert!(sh.timestamp.seconds == s && sh.timestamp.microseconds == us);
            match &id_bytes {
                Some(id) => assert!(bytes_eq(sh.ecu_id.as_bytes(), id)),
                None => assert!(bytes_eq(sh.ecu_id.as_bytes(), b"ECU")),
            }
            // the 16 bytes it serialises to are the storage-header layout
            let b = sh.as_bytes();
            let mut o = Out::new();
            ref_put_storage_header(&mut o, sh);
            assert!(o.eq_bytes(&b));
            assert!(b.len() == 16);
        }
        None => { assert!(false); }
    }
}
