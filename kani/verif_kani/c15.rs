//! C15 — computed lengths equal serialised lengths; built messages are self-consistent.
//! (Argument::len / valid are proved unbounded by the Verus unit c15_arglen; len() ==
//! as_bytes().len() is asserted for every kind inside the c01_arg_* harnesses.)
use super::c01::*;
use super::gen::*;
use super::refcodec::*;
use super::util::*;
use crate::dlt::*;
use crate::parse::*;

/// Message::new self-consistency for one payload value (all sizes concrete per harness):
///  * payload_length == serialised payload == reference encoding of the payload in the
///    configured byte order (so the message "fits" exactly what it announces)
///  * byte_len() == header lengths + payload_length
///  * verbose flag and argument count as the payload kind requires
///  * header fields copied from the configuration
/// "Parses back to an equal message" then follows from the layer contracts (C01 header /
/// argument round trips, payload writer == reference layout, Verus unit c04_message: the
/// parser consumes exactly LEN and hands exactly the declared payload to the payload parser).
fn check_new(payload: PayloadContent, big: bool, want_verbose: bool, want_noar: u8, ext_type: Option<MessageType>) {
    check_new_hdr(payload, big, want_verbose, want_noar, ext_type, true)
}

/// `sym_header == false`: the optional header fields are absent (constants) -- used for the
/// payload kinds whose writers are expensive in CBMC (vectors of vectors / of arguments)
fn check_new_hdr(payload: PayloadContent, big: bool, want_verbose: bool, want_noar: u8, ext_type: Option<MessageType>, sym_header: bool) {
    let endianness = if big { Endianness::Big } else { Endianness::Little };
    let v: u8 = kani::any();
    kani::assume(v <= 7);
    let has_ext = ext_type.is_some();
    let counter: u8 = kani::any();
    let session: Option<u32> = if sym_header && kani::any() { Some(kani::any()) } else { None };
    let timestamp: Option<u32> = if sym_header && kani::any() { Some(kani::any()) } else { None };
    let with_ecu: bool = if sym_header { kani::any() } else { false };
    let conf = MessageConfig {
        version: v,
        counter,
        endianness,
        ecu_id: if with_ecu { Some(ascii_exact::<3>()) } else { None },
        session_id: session,
        timestamp,
        payload: payload.clone(),
        extended_header_info: ext_type.map(|t| ExtendedHeaderConfig {
            message_type: t,
            app_id: ascii_exact::<2>(),
            context_id: ascii_exact::<4>(),
        }),
    };
    let m = Message::new(conf, None);
    // payload length recorded == serialised payload == reference layout
    let pb = if big { payload.as_bytes::<byteorder::BigEndian>() } else { payload.as_bytes::<byteorder::LittleEndian>() };
    let mut o = Out::new();
    ref_put_payload(&mut o, &payload, big);
    assert!(o.eq_bytes(&pb));
    assert!(m.header.payload_length as usize == pb.len());
    // byte_len == all headers + payload
    let hl = 4 + (if with_ecu { 4 } else { 0 }) + (if session.is_some() { 4 } else { 0 }) + (if timestamp.is_some() { 4 } else { 0 }) + (if has_ext { 10 } else { 0 });
    assert!(m.byte_len() as usize == hl + pb.len());
    assert!(m.header.has_extended_header == has_ext);
    assert!(m.header.version == v && m.header.message_counter == counter);
    assert!(m.header.session_id == session && m.header.timestamp == timestamp);
    assert!(m.header.ecu_id.is_some() == with_ecu);
    assert!(m.header.endianness == endianness);
    assert!(m.extended_header.is_some() == has_ext);
    if let Some(e) = &m.extended_header {
        // verbose flag and argument count that the payload kind requires
        assert!(e.verbose == want_verbose);
        assert!(e.argument_count == want_noar);
    }
    assert!(payload_eq(&m.payload, &payload));
}

fn check_new_min(payload: PayloadContent, big: bool, want_verbose: bool, want_noar: u8, ext_type: Option<MessageType>) {
    check_new_hdr(payload, big, want_verbose, want_noar, ext_type, false)
}

fn check_new_orders(payload: PayloadContent, want_verbose: bool, want_noar: u8, ext_type: Option<MessageType>) {
    if kani::any() {
        check_new(payload, true, want_verbose, want_noar, ext_type)
    } else {
        check_new(payload, false, want_verbose, want_noar, ext_type)
    }
}

#[kani::proof]
#[kani::stub(alloc::fmt::format, fmt_stub)]
#[kani::unwind(20)]
fn c15_new_nonverbose() {
    let p = PayloadContent::NonVerbose(kani::any(), bytes_exact::<2>());
    check_new_orders(p, false, 0, Some(MessageType::Log(LogLevel::Debug)));
}

#[kani::proof]
#[kani::stub(alloc::fmt::format, fmt_stub)]
#[kani::unwind(20)]
fn c15_new_nonverbose_noext() {
    let p = PayloadContent::NonVerbose(kani::any(), bytes_exact::<3>());
    check_new_orders(p, false, 0, None);
}

#[kani::proof]
#[kani::stub(alloc::fmt::format, fmt_stub)]
#[kani::unwind(20)]
fn c15_new_control() {
    let p = PayloadContent::ControlMsg(ControlType::from_value(kani::any()), bytes_exact::<2>());
    check_new_orders(p, false, 0, Some(MessageType::Control(ControlType::Response)));
}

fn i16_arg() -> Argument {
    Argument {
        type_info: TypeInfo { kind: TypeInfoKind::Signed(TypeLength::BitLength16), coding: StringCoding::UTF8, has_variable_info: false, has_trace_info: false },
        name: None,
        unit: None,
        fixed_point: None,
        value: Value::I16(kani::any()),
    }
}

#[kani::proof]
#[kani::stub(alloc::fmt::format, fmt_stub)]
#[kani::unwind(20)]
fn c15_new_verbose0() {
    check_new_orders(PayloadContent::Verbose(Vec::new()), true, 0, Some(MessageType::Log(LogLevel::Info)));
}

/// constructor post-state for payload kinds whose writers are expensive in CBMC (vectors of
/// vectors / of arguments): only the recorded numbers are checked here -- payload_length,
/// byte_len, verbose flag, argument count -- against the layout arithmetic; that the payload
/// BYTES are the layout is the separate writer harness c02_enc_nwtrace / c01_arg_*.
fn check_new_numbers(payload: PayloadContent, big: bool, ext_type: MessageType, want_len: u16, want_verbose: bool, want_noar: u8) {
    let conf = MessageConfig {
        version: 1,
        counter: kani::any(),
        endianness: if big { Endianness::Big } else { Endianness::Little },
        ecu_id: None,
        session_id: None,
        timestamp: None,
        payload,
        extended_header_info: Some(ExtendedHeaderConfig { message_type: ext_type, app_id: ascii_exact::<2>(), context_id: ascii_exact::<4>() }),
    };
    let m = Message::new(conf, None);
    assert!(m.header.payload_length == want_len);
    assert!(m.byte_len() == 4 + 10 + want_len);
    assert!(m.header.has_extended_header);
    match &m.extended_header {
        Some(e) => {
            assert!(e.verbose == want_verbose);
            assert!(e.argument_count == want_noar);
        }
        None => { assert!(false); }
    }
}

#[kani::proof]
#[kani::stub(alloc::fmt::format, fmt_stub)]
#[kani::unwind(20)]
fn c15_new_verbose1_be() {
    check_new_numbers(PayloadContent::Verbose(vec![i16_arg()]), true, MessageType::Log(LogLevel::Info), 6, true, 1);
}

/// network trace: serialised as raw-data arguments (4 type-info bytes + 16-bit length + data per
/// slice), so the message must be marked verbose with one argument per slice to parse back
#[kani::proof]
#[kani::stub(alloc::fmt::format, fmt_stub)]
#[kani::unwind(20)]
fn c15_new_nwtrace1_be() {
    check_new_numbers(PayloadContent::NetworkTrace(vec![bytes_exact::<2>()]), true, MessageType::NetworkTrace(NetworkTraceType::Can), 8, true, 1);
}
#[kani::proof]
#[kani::stub(alloc::fmt::format, fmt_stub)]
#[kani::unwind(20)]
fn c15_new_nwtrace1_le() {
    check_new_numbers(PayloadContent::NetworkTrace(vec![bytes_exact::<1>()]), false, MessageType::NetworkTrace(NetworkTraceType::Ipc), 7, true, 1);
}
#[kani::proof]
#[kani::stub(alloc::fmt::format, fmt_stub)]
#[kani::unwind(20)]
fn c15_new_nwtrace2_be() {
    check_new_numbers(PayloadContent::NetworkTrace(vec![bytes_exact::<2>(), bytes_exact::<0>()]), true, MessageType::NetworkTrace(NetworkTraceType::Someip), 14, true, 2);
}
#[kani::proof]
#[kani::stub(alloc::fmt::format, fmt_stub)]
#[kani::unwind(20)]
fn c15_new_nwtrace0() {
    check_new_min(PayloadContent::NetworkTrace(Vec::new()), false, true, 0, Some(MessageType::NetworkTrace(NetworkTraceType::Can)));
}

fn add_storage_case(with_ecu: bool) {
    let h = StandardHeader {
        version: 1,
        endianness: Endianness::Little,
        has_extended_header: false,
        message_counter: 3,
        ecu_id: if with_ecu { Some(ascii_exact::<4>()) } else { None },
        session_id: None,
        timestamp: None,
        payload_length: 4,
    };
    let id0 = match &h.ecu_id { Some(s) => s.as_bytes()[0], None => b'E' };
    let m = Message { storage_header: None, header: h, extended_header: None, payload: PayloadContent::NonVerbose(7, Vec::new()) };
    let ts = DltTimeStamp { seconds: kani::any(), microseconds: kani::any() };
    let (s, us) = (ts.seconds, ts.microseconds);
    let m3 = m.add_storage_header(Some(ts));
    assert!(m3.header.message_counter == 3 && m3.header.payload_length == 4 && m3.header.ecu_id.is_some() == with_ecu);
    assert!(m3.extended_header.is_none());
    match &m3.storage_header {
        Some(sh) => {
            assert!(sh.timestamp.seconds == s && sh.timestamp.microseconds == us);
            assert!(sh.ecu_id.len() == if with_ecu { 4 } else { 3 });
            assert!(sh.ecu_id.as_bytes()[0] == id0);
            if !with_ecu {
                assert!(bytes_eq(sh.ecu_id.as_bytes(), b"ECU"));
            }
        }
        None => { assert!(false); }
    }
}

/// add_storage_header(Some(ts)) sets a storage header carrying ts and the header ECU id (or the
/// default id "ECU") and leaves the rest untouched; that a storage header serialises to the
/// 16-byte layout is c01_rt_sto_header_*
#[kani::proof]
#[kani::stub(alloc::fmt::format, fmt_stub)]
#[kani::unwind(20)]
fn c15_add_storage_header_ecu() {
    add_storage_case(true);
}
#[kani::proof]
#[kani::stub(alloc::fmt::format, fmt_stub)]
#[kani::unwind(20)]
fn c15_add_storage_header_default() {
    add_storage_case(false);
}
