//! C15 — computed lengths equal serialised lengths; built messages are self-consistent.
//! (Argument::len / valid are proved unbounded by the Verus unit c15_arglen; len() ==
//! as_bytes().len() is asserted for every kind inside the c01_arg_* harnesses.)
use super::c01::*;
use super::gen::*;
use super::refcodec::*;
use super::util::*;
use crate::dlt::*;
use crate::parse::*;

fn check_new(payload: PayloadContent, want_verbose: bool, want_noar: u8, ext_type: Option<MessageType>) {
    let endianness = any_endianness();
    let big = endianness == Endianness::Big;
    let v: u8 = kani::any();
    kani::assume(v <= 7);
    let has_ext = ext_type.is_some();
    let conf = MessageConfig {
        version: v,
        counter: kani::any(),
        endianness,
        ecu_id: if kani::any() { Some(any_ascii::<2>()) } else { None },
        session_id: if kani::any() { Some(kani::any()) } else { None },
        timestamp: if kani::any() { Some(kani::any()) } else { None },
        payload: payload.clone(),
        extended_header_info: ext_type.map(|t| ExtendedHeaderConfig {
            message_type: t,
            app_id: any_ascii::<2>(),
            context_id: any_ascii::<2>(),
        }),
    };
    let ecu = conf.ecu_id.clone();
    let m = Message::new(conf, None);
    // payload length recorded == serialised payload (reference encoder)
    assert!(m.header.payload_length as usize == ref_payload_len(&payload, big));
    let bytes = m.as_bytes();
    // byte_len == serialisation without storage header
    assert!(m.byte_len() as usize == bytes.len());
    assert!(m.header.has_extended_header == has_ext);
    if let Some(e) = &m.extended_header {
        // verbose flag and argument count that the payload kind requires
        assert!(e.verbose == want_verbose);
        assert!(e.argument_count == want_noar);
    }
    // parses back to an equal message
    match dlt_message(&bytes, None, false) {
        Ok((rest, ParsedMessage::Item(m2))) => {
            assert!(rest.len() == 0);
            assert!(message_eq(&m, &m2));
        }
        _ => { assert!(false); }
    }
    // adding a storage header only prepends 16 bytes with the given time and the header ECU id
    let ts = DltTimeStamp { seconds: kani::any(), microseconds: kani::any() };
    let (s, us) = (ts.seconds, ts.microseconds);
    let m3 = m.add_storage_header(Some(ts));
    let b3 = m3.as_bytes();
    assert!(b3.len() == bytes.len() + 16);
    assert!(bytes_eq(&b3[16..], &bytes));
    match &m3.storage_header {
        Some(sh) => {
            assert!(sh.timestamp.seconds == s && sh.timestamp.microseconds == us);
            match &ecu {
                Some(id) => assert!(sh.ecu_id.as_bytes() == id.as_bytes()),
                None => assert!(sh.ecu_id.as_bytes() == b"ECU"),
            }
            let mut o = Out::new();
            ref_put_storage_header(&mut o, sh);
            assert!(o.eq_bytes(&b3[..16]));
        }
        None => { assert!(false); }
    }
}

#[kani::proof]
#[kani::stub(alloc::fmt::format, fmt_stub)]
#[kani::unwind(40)]
fn c15_new_nonverbose() {
    let p = PayloadContent::NonVerbose(kani::any(), any_bytes::<2>());
    let ext = if kani::any() { Some(MessageType::Log(LogLevel::Debug)) } else { None };
    check_new(p, false, 0, ext);
}

#[kani::proof]
#[kani::stub(alloc::fmt::format, fmt_stub)]
#[kani::unwind(40)]
fn c15_new_control() {
    let p = PayloadContent::ControlMsg(ControlType::from_value(kani::any()), any_bytes::<2>());
    check_new(p, false, 0, Some(MessageType::Control(ControlType::Response)));
}

#[kani::proof]
#[kani::stub(alloc::fmt::format, fmt_stub)]
#[kani::unwind(40)]
fn c15_new_verbose() {
    let a = Argument {
        type_info: TypeInfo { kind: TypeInfoKind::Signed(TypeLength::BitLength16), coding: StringCoding::UTF8, has_variable_info: false, has_trace_info: false },
        name: None,
        unit: None,
        fixed_point: None,
        value: Value::I16(kani::any()),
    };
    let n: u8 = kani::any();
    kani::assume(n <= 2);
    let mut args = Vec::new();
    if n >= 1 { args.push(a.clone()); }
    if n >= 2 { args.push(a); }
    check_new(PayloadContent::Verbose(args), true, n, Some(MessageType::Log(LogLevel::Info)));
}

/// network trace: serialised as raw-data arguments, so the message must be marked verbose with
/// one argument per slice for it to parse back
#[kani::proof]
#[kani::stub(alloc::fmt::format, fmt_stub)]
#[kani::unwind(40)]
fn c15_new_nwtrace() {
    let n: u8 = kani::any();
    kani::assume(n <= 2);
    let mut slices = Vec::new();
    if n >= 1 { slices.push(any_bytes::<2>()); }
    if n >= 2 { slices.push(any_bytes::<1>()); }
    check_new(PayloadContent::NetworkTrace(slices), true, n, Some(MessageType::NetworkTrace(NetworkTraceType::Can)));
}
