//! Harnesses for PRIVATE functions of src/parse.rs (mounted as `crate::parse::verif_in` by
//! `vx inject`, so `super::*` reaches dlt_payload, dlt_message_intern, filtered_out, ...).
use super::*;
use crate::verif_kani::util::*;

fn payload_nonverbose_case<const PL: u16>(input: &[u8; 8], big: bool, control: bool) {
    let mt = if control { Some(MessageType::Control(ControlType::Request)) } else if kani::any() { Some(MessageType::Log(LogLevel::Warn)) } else { None };
    let r = if big {
        dlt_payload::<BigEndian>(input, false, PL, kani::any(), mt)
    } else {
        dlt_payload::<LittleEndian>(input, false, PL, kani::any(), mt)
    };
    match r {
        Ok((rest, p)) => {
            // consumes exactly the declared payload and returns a suffix
            assert!(rest.len() == 8 - PL as usize);
            assert!(bytes_eq(rest, &input[PL as usize..]));
            match p {
                PayloadContent::NonVerbose(id, data) => {
                    assert!(!control && PL >= 4);
                    let idb = [input[0], input[1], input[2], input[3]];
                    assert!(id == if big { u32::from_be_bytes(idb) } else { u32::from_le_bytes(idb) });
                    assert!(bytes_eq(&data, &input[4..PL as usize]));
                }
                PayloadContent::ControlMsg(_, data) => {
                    assert!(control && PL >= 1);
                    assert!(bytes_eq(&data, &input[1..PL as usize]));
                }
                _ => { assert!(false); }
            }
        }
        Err(_) => {
            // too short for its mandatory id
            assert!(if control { PL < 1 } else { PL < 4 });
        }
    }
}

macro_rules! payload_nv_harness {
    ($name:ident, $pl:expr, $big:expr, $control:expr) => {
        #[kani::proof]
        #[kani::stub(alloc::fmt::format, fmt_stub)]
        #[kani::unwind(12)]
        fn $name() {
            let input: [u8; 8] = kani::any();
            payload_nonverbose_case::<$pl>(&input, $big, $control);
        }
    };
}
// dlt_payload, non-verbose and control branches on an 8-byte input; payload length, byte order
// and kind are constants per harness (CBMC needs concrete allocation sizes)
payload_nv_harness!(inp_payload_nonverbose_be4, 4, true, false);
payload_nv_harness!(inp_payload_nonverbose_le7, 7, false, false);
payload_nv_harness!(inp_payload_nonverbose_le3, 3, false, false);
payload_nv_harness!(inp_payload_control_1, 1, true, true);
payload_nv_harness!(inp_payload_control_8, 8, false, true);
payload_nv_harness!(inp_payload_control_0, 0, false, true);

fn payload_verbose_case(noar: u8, word: u32) {
    let mt = if kani::any() { Some(MessageType::Log(LogLevel::Info)) } else { Some(MessageType::NetworkTrace(NetworkTraceType::Can)) };
    payload_verbose_case_mt(noar, word, mt)
}

/// the verbose flag decides: a verbose message carries arguments whatever its message type says
/// (a verbose message of type Control is still a list of arguments)
fn payload_verbose_case_mt(noar: u8, word: u32, mt: Option<MessageType>) {
    let v: [u8; 3] = kani::any();
    let w = word.to_le_bytes();
    let input: [u8; 7] = [w[0], w[1], w[2], w[3], v[0], v[1], v[2]];
    let is_nw = matches!(mt, Some(MessageType::NetworkTrace(_)));
    match dlt_payload::<LittleEndian>(&input, true, kani::any(), noar, mt) {
        Ok((rest, p)) => {
            assert!(rest.len() <= input.len());
            assert!(rest.len() == if noar == 0 { 7 } else { 2 });
            match p {
                PayloadContent::Verbose(args) => {
                    assert!(!is_nw);
                    assert!(args.len() == noar as usize);
                    if noar == 1 {
                        assert!(matches!(args[0].value, Value::U8(x) if x == v[0]) || matches!(args[0].value, Value::Bool(x) if x == v[0]));
                    }
                }
                PayloadContent::NetworkTrace(s) => {
                    // only raw-data arguments become slices
                    assert!(is_nw && s.len() == 0);
                }
                _ => { assert!(false); }
            }
        }
        Err(_) => { assert!(false); }
    }
}

/// dlt_payload, verbose branch: the rest is a suffix of the input (the contract the Verus unit
/// c04_message assumes); NOAR and the type-info word are constants per harness
#[kani::proof]
#[kani::stub(alloc::fmt::format, fmt_stub)]
#[kani::unwind(12)]
fn inp_payload_verbose_noar0() {
    payload_verbose_case(0, 0x41);
}
#[kani::proof]
#[kani::stub(alloc::fmt::format, fmt_stub)]
#[kani::unwind(12)]
fn inp_payload_verbose_u8() {
    payload_verbose_case(1, 0x41);
}
#[kani::proof]
#[kani::stub(alloc::fmt::format, fmt_stub)]
#[kani::unwind(12)]
fn inp_payload_verbose_bool() {
    payload_verbose_case(1, 0x11);
}

#[kani::proof]
#[kani::stub(alloc::fmt::format, fmt_stub)]
#[kani::unwind(12)]
fn inp_payload_verbose_control() {
    let ct = if kani::any() { ControlType::Request } else { ControlType::Response };
    payload_verbose_case_mt(1, 0x41, Some(MessageType::Control(ct)));
}
#[kani::proof]
#[kani::stub(alloc::fmt::format, fmt_stub)]
#[kani::unwind(12)]
fn inp_payload_verbose_notype() {
    payload_verbose_case_mt(1, 0x11, None);
}
