//! Harnesses for PRIVATE functions of src/parse.rs (mounted as `crate::parse::verif_in` by
//! `vx inject`, so `super::*` reaches dlt_payload, dlt_message_intern, filtered_out, ...).
use super::*;
use crate::verif_kani::util::*;

#[kani::proof]
#[kani::stub(alloc::fmt::format, fmt_stub)]
#[kani::unwind(12)]
fn inp_exp_payload0() {
    let p: [u8; 4] = kani::any();
    let r = dlt_payload::<LittleEndian>(&p, true, 2, 0, Some(MessageType::Log(LogLevel::Info)));
    match r {
        Ok((rest, _)) => { assert!(rest.len() == 2); }
        Err(_) => {}
    }
}
