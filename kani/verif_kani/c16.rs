//! C16 — re-serialising a parsed message is stable. NOT claimed (DESIGN.md §4).
//! Tried and dropped (measured): parse -> write -> parse on symbolic bytes, (a) whole messages
//! of 4..12 bytes, (b) single arguments with a concrete kind and symbolic unused / reserved
//! type-info bits: the re-parse of a value whose TypeInfo flags are symbolic explores all eight
//! argument kinds and exceeds 8 GB in every variant. What the other harnesses say about it:
//! c14_type_info_all (decode . encode . decode == decode for all 2^32 words, re-encoding differs
//! only in unused bits), c02_dec_* (HTYP / MSIN re-encode to the same byte for all inputs),
//! c14_control_value_roundtrip (service id), c01_arg_* (parse . write == id for canonical values).
