//! C16 — re-serialising any parsed message is stable. Harnesses start from SYMBOLIC BYTES (not
//! from well-formed values): parse, write, parse again, write again.
use super::gen::*;
use super::refcodec::*;
use super::util::*;
use crate::dlt::*;
use crate::parse::*;

pub fn check_stable(buf: &[u8]) {
    if let Ok((_, ParsedMessage::Item(m))) = dlt_message(buf, None, false) {
        let w = m.as_bytes();
        // "if the re-serialisation of that message has the length its own header declares"
        if w.len() == m.header.overall_length() as usize {
            match dlt_message(&w, None, false) {
                Ok((rest, ParsedMessage::Item(m2))) => {
                    assert!(rest.len() == 0);
                    assert!(message_eq(&m, &m2));
                    assert!(bytes_eq(&m2.as_bytes(), &w));
                }
                _ => { assert!(false); }
            }
        }
        kani::cover!(w.len() == m.header.overall_length() as usize);
    }
}

#[kani::proof]
#[kani::stub(alloc::fmt::format, fmt_stub)]
#[kani::unwind(14)]
fn c16_stable_arbitrary_n12() {
    const N: usize = 12;
    let buf: [u8; N] = kani::any();
    let n: usize = kani::any();
    kani::assume(n >= 4 && n <= N);
    check_stable(&buf[..n]);
}

/// verbose message, one argument whose type-info word and bytes are symbolic (non-canonical
/// bits, every kind), minimal headers
#[kani::proof]
#[kani::stub(alloc::fmt::format, fmt_stub)]
#[kani::unwind(14)]
fn c16_stable_verbose_arg() {
    const N: usize = 24;
    let mut buf: [u8; N] = kani::any();
    buf[0] = (buf[0] & 0xE2) | 1;
    buf[4] = (buf[4] & 0xF0) | 0x01;
    buf[5] = 1;
    let n: usize = kani::any();
    kani::assume(n >= 14 && n <= N);
    check_stable(&buf[..n]);
}
