//! Harnesses for PRIVATE functions of src/dlt.rs (mounted as `crate::dlt::verif_in`).
use super::*;

#[kani::proof_for_contract(standard_header_type)]
fn ind_standard_header_type_contract() {
    let e = if kani::any() { Endianness::Big } else { Endianness::Little };
    let _ = standard_header_type(kani::any(), e, kani::any(), kani::any(), kani::any(), kani::any());
}
