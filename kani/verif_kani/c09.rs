//! C09 — filtering. The decision procedure `filtered_out` is proved verbatim by the Verus unit
//! c09_filter for all configurations / sets / strings, *assuming* the contract of
//! `ExtendedHeader::skip_with_level` (derived PartialOrd is opaque to Verus). That contract is
//! proved here, complete over all message types x all levels; plus the level conversion.
use super::util::*;
use crate::dlt::*;
use crate::filtering::*;

fn rank(l: LogLevel) -> u8 {
    match l {
        LogLevel::Fatal => 1,
        LogLevel::Error => 2,
        LogLevel::Warn => 3,
        LogLevel::Info => 4,
        LogLevel::Debug => 5,
        LogLevel::Verbose => 6,
        LogLevel::Invalid(_) => 0,
    }
}
fn level_valid(l: LogLevel) -> bool {
    !matches!(l, LogLevel::Invalid(_))
}

/// Postcondition of skip_with_level from the property: for a valid minimum level, skip exactly
/// the log messages with a valid level less severe than the minimum.
pub fn post_skip_with_level(h: &ExtendedHeader, min: LogLevel, r: bool) -> bool {
    if !level_valid(min) {
        return true;
    }
    let expected = match &h.message_type {
        MessageType::Log(n) => level_valid(*n) && rank(*n) > rank(min),
        _ => false,
    };
    r == expected
}

pub fn any_log_level() -> LogLevel {
    match kani::any::<u8>() % 7 {
        0 => LogLevel::Fatal,
        1 => LogLevel::Error,
        2 => LogLevel::Warn,
        3 => LogLevel::Info,
        4 => LogLevel::Debug,
        5 => LogLevel::Verbose,
        _ => LogLevel::Invalid(kani::any()),
    }
}

pub fn any_message_type() -> MessageType {
    match kani::any::<u8>() % 5 {
        0 => MessageType::Log(any_log_level()),
        1 => MessageType::ApplicationTrace(match kani::any::<u8>() % 6 {
            0 => ApplicationTraceType::Variable,
            1 => ApplicationTraceType::FunctionIn,
            2 => ApplicationTraceType::FunctionOut,
            3 => ApplicationTraceType::State,
            4 => ApplicationTraceType::Vfb,
            _ => ApplicationTraceType::Invalid(kani::any()),
        }),
        2 => MessageType::NetworkTrace(match kani::any::<u8>() % 8 {
            0 => NetworkTraceType::Ipc,
            1 => NetworkTraceType::Can,
            2 => NetworkTraceType::Flexray,
            3 => NetworkTraceType::Most,
            4 => NetworkTraceType::Ethernet,
            5 => NetworkTraceType::Someip,
            6 => NetworkTraceType::Invalid,
            _ => NetworkTraceType::UserDefined(kani::any()),
        }),
        3 => MessageType::Control(match kani::any::<u8>() % 3 {
            0 => ControlType::Request,
            1 => ControlType::Response,
            _ => ControlType::Unknown(kani::any()),
        }),
        _ => MessageType::Unknown((kani::any(), kani::any())),
    }
}

#[kani::proof_for_contract(crate::dlt::ExtendedHeader::skip_with_level)]
fn c09_skip_with_level_contract() {
    let h = ExtendedHeader {
        verbose: kani::any(),
        argument_count: kani::any(),
        message_type: any_message_type(),
        application_id: String::new(),
        context_id: String::new(),
    };
    let min = any_log_level();
    let r = h.skip_with_level(min);
    kani::cover!(r);
    kani::cover!(!r && level_valid(min) && matches!(h.message_type, MessageType::Log(_)));
}

/// Postcondition of u8_to_log_level: the six codes 1..=6 map to the six levels in severity
/// order, every other code maps to None ("numeric minimum levels outside 1..6 mean no level
/// filtering").
pub fn post_u8_to_log_level(v: u8, r: &Option<LogLevel>) -> bool {
    match r {
        Some(l) => v >= 1 && v <= 6 && level_valid(*l) && rank(*l) == v,
        None => v == 0 || v > 6,
    }
}

#[kani::proof_for_contract(crate::dlt::u8_to_log_level)]
fn c09_u8_to_log_level_contract() {
    let v: u8 = kani::any();
    let _ = u8_to_log_level(v);
}

/// Both conversions DltFilterConfig -> ProcessedDltFilterConfig: the level is
/// u8_to_log_level of the number (never an Invalid level; outside 1..6 => None), counts are
/// copied, and the sets contain exactly the elements of the vectors. Ids are picked among
/// concrete strings (a symbolic key through SipHash does not terminate in CBMC).
fn pick_id(k: u8) -> String {
    match k % 3 {
        0 => String::from("A"),
        1 => String::from("B"),
        _ => String::from("C"),
    }
}
fn any_id_vec() -> (Option<Vec<String>>, [bool; 3]) {
    let mut present = [false; 3];
    if kani::any() {
        let n: u8 = kani::any();
        kani::assume(n <= 2);
        let mut v = Vec::new();
        let mut i = 0;
        while i < n {
            let k: u8 = kani::any();
            kani::assume(k < 3);
            present[k as usize] = true;
            v.push(pick_id(k));
            i += 1;
        }
        (Some(v), present)
    } else {
        (None, present)
    }
}
fn set_matches(s: &Option<std::collections::HashSet<String>>, v_some: bool, present: &[bool; 3]) -> bool {
    match s {
        None => !v_some,
        Some(set) => {
            v_some
                && set.contains("A") == present[0]
                && set.contains("B") == present[1]
                && set.contains("C") == present[2]
                && set.len() == (present[0] as usize + present[1] as usize + present[2] as usize)
        }
    }
}

#[kani::proof]
#[kani::unwind(4)]
fn c09_cfg_conv() {
    let lvl: Option<u8> = if kani::any() { Some(kani::any()) } else { None };
    let (apps, pa) = any_id_vec();
    let (ctxs, pc) = any_id_vec();
    let (ecus, pe) = any_id_vec();
    let cfg = DltFilterConfig {
        min_log_level: lvl,
        app_ids: apps,
        ecu_ids: ecus,
        context_ids: ctxs,
        app_id_count: kani::any(),
        context_id_count: kani::any(),
    };
    let by_ref = ProcessedDltFilterConfig::from(&cfg);
    let a_some = cfg.app_ids.is_some();
    let c_some = cfg.context_ids.is_some();
    let e_some = cfg.ecu_ids.is_some();
    let (ac, cc) = (cfg.app_id_count, cfg.context_id_count);
    let owned = ProcessedDltFilterConfig::from(cfg);
    for p in [&by_ref, &owned] {
        match (lvl, p.min_log_level) {
            (Some(n), Some(l)) => { assert!(n >= 1 && n <= 6 && level_valid(l) && rank(l) == n); }
            (Some(n), None) => { assert!(n == 0 || n > 6); }
            (None, None) => {}
            (None, Some(_)) => { assert!(false); }
        }
        assert!(p.app_id_count == ac && p.context_id_count == cc);
        assert!(set_matches(&p.app_ids, a_some, &pa));
        assert!(set_matches(&p.context_ids, c_some, &pc));
        assert!(set_matches(&p.ecu_ids, e_some, &pe));
    }
}

/// level conversion only (no sets): numeric minimum levels outside 1..6 mean no level filtering,
/// and the result is never an Invalid level (the well-formedness the Verus proof assumes)
#[kani::proof]
#[kani::unwind(4)]
fn c09_cfg_level() {
    let lvl: Option<u8> = if kani::any() { Some(kani::any()) } else { None };
    let cfg = DltFilterConfig {
        min_log_level: lvl,
        app_ids: None,
        ecu_ids: None,
        context_ids: None,
        app_id_count: kani::any(),
        context_id_count: kani::any(),
    };
    let by_ref = ProcessedDltFilterConfig::from(&cfg);
    let (ac, cc) = (cfg.app_id_count, cfg.context_id_count);
    let owned = ProcessedDltFilterConfig::from(cfg);
    for p in [&by_ref, &owned] {
        match (lvl, p.min_log_level) {
            (Some(n), Some(l)) => { assert!(n >= 1 && n <= 6 && level_valid(l) && rank(l) == n); }
            (Some(n), None) => { assert!(n == 0 || n > 6); }
            (None, None) => {}
            (None, Some(_)) => { assert!(false); }
        }
        assert!(p.app_id_count == ac && p.context_id_count == cc);
        assert!(p.app_ids.is_none() && p.context_ids.is_none() && p.ecu_ids.is_none());
    }
}

/// one id set (app ids, <= 2 ids from {A,B,C}); thorough tier
#[kani::proof]
#[kani::unwind(4)]
fn c09_cfg_one_set() {
    let (apps, pa) = any_id_vec();
    let cfg = DltFilterConfig {
        min_log_level: None,
        app_ids: apps,
        ecu_ids: None,
        context_ids: None,
        app_id_count: kani::any(),
        context_id_count: kani::any(),
    };
    let a_some = cfg.app_ids.is_some();
    let by_ref = ProcessedDltFilterConfig::from(&cfg);
    let owned = ProcessedDltFilterConfig::from(cfg);
    for p in [&by_ref, &owned] {
        assert!(set_matches(&p.app_ids, a_some, &pa));
    }
}
