//! Reference encoder / decoder written from the AUTOSAR DLT PRS layout (as quoted in the
//! property statements), NOT from the crate's code. Used as the specification side of the
//! relational harnesses.

/// HTYP bits
pub const UEH: u8 = 0x01;
pub const MSBF: u8 = 0x02;
pub const WEID: u8 = 0x04;
pub const WSID: u8 = 0x08;
pub const WTMS: u8 = 0x10;

pub fn ref_std_header_len(htyp: u8) -> u16 {
    4 + if htyp & WEID != 0 { 4 } else { 0 }
        + if htyp & WSID != 0 { 4 } else { 0 }
        + if htyp & WTMS != 0 { 4 } else { 0 }
}
pub fn ref_all_headers_len(htyp: u8) -> u16 {
    ref_std_header_len(htyp) + if htyp & UEH != 0 { 10 } else { 0 }
}

/// Type-info word layout (PRS_Dlt_00135 ff.)
pub const TI_TYLE_MASK: u32 = 0xF;
pub const TI_BOOL: u32 = 1 << 4;
pub const TI_SINT: u32 = 1 << 5;
pub const TI_UINT: u32 = 1 << 6;
pub const TI_FLOA: u32 = 1 << 7;
pub const TI_ARAY: u32 = 1 << 8;
pub const TI_STRG: u32 = 1 << 9;
pub const TI_RAWD: u32 = 1 << 10;
pub const TI_VARI: u32 = 1 << 11;
pub const TI_FIXP: u32 = 1 << 12;
pub const TI_TRAI: u32 = 1 << 13;
pub const TI_STRU: u32 = 1 << 14;
pub const TI_SCOD_SHIFT: u32 = 15;

#[derive(Clone, Copy, PartialEq, Eq)]
pub enum RefKind {
    Bool,
    Signed(u8),        // width in bytes 1,2,4,8,16
    SignedFixed(u8),   // width in bytes 4,8
    Unsigned(u8),
    UnsignedFixed(u8),
    Float(u8), // 4,8
    Str,
    Raw,
}

#[derive(Clone, Copy, PartialEq, Eq)]
pub struct RefTypeInfo {
    pub kind: RefKind,
    pub scod: u8,
    pub vari: bool,
    pub trai: bool,
}

fn tyle_bytes(tyle: u32) -> Option<u8> {
    match tyle {
        1 => Some(1),
        2 => Some(2),
        3 => Some(4),
        4 => Some(8),
        5 => Some(16),
        _ => None,
    }
}

/// Reference decoder of a type-info word: `None` = not exactly one supported kind with a
/// supported width.
pub fn ref_decode_type_info(w: u32) -> Option<RefTypeInfo> {
    let kinds = w & (TI_BOOL | TI_SINT | TI_UINT | TI_FLOA | TI_ARAY | TI_STRG | TI_RAWD);
    let tyle = w & TI_TYLE_MASK;
    let fixp = w & TI_FIXP != 0;
    let kind = if kinds == TI_BOOL {
        RefKind::Bool
    } else if kinds == TI_SINT || kinds == TI_UINT {
        let b = tyle_bytes(tyle)?;
        if fixp {
            if b != 4 && b != 8 {
                return None;
            }
            if kinds == TI_SINT { RefKind::SignedFixed(b) } else { RefKind::UnsignedFixed(b) }
        } else if kinds == TI_SINT {
            RefKind::Signed(b)
        } else {
            RefKind::Unsigned(b)
        }
    } else if kinds == TI_FLOA {
        let b = tyle_bytes(tyle)?;
        if b != 4 && b != 8 {
            return None;
        }
        RefKind::Float(b)
    } else if kinds == TI_STRG {
        RefKind::Str
    } else if kinds == TI_RAWD {
        RefKind::Raw
    } else {
        return None;
    };
    Some(RefTypeInfo {
        kind,
        scod: ((w >> TI_SCOD_SHIFT) & 7) as u8,
        vari: w & TI_VARI != 0,
        trai: w & TI_TRAI != 0,
    })
}

/// Bits of a type-info word that the format leaves unused for the given kind.
pub fn ref_unused_mask(k: RefKind) -> u32 {
    let always: u32 = TI_STRU | 0xFFFC_0000;
    match k {
        RefKind::Signed(_) | RefKind::Unsigned(_) | RefKind::SignedFixed(_) | RefKind::UnsignedFixed(_) => always,
        RefKind::Float(_) => always | TI_FIXP,
        RefKind::Bool | RefKind::Str | RefKind::Raw => always | TI_FIXP | TI_TYLE_MASK,
    }
}
