//! Reference encoder / decoder written from the AUTOSAR DLT PRS layout (as quoted in the
//! property statements), NOT from the crate's code. Used as the specification side of the
//! relational harnesses.

/// HTYP bits
pub const UEH: u8 = 0x01;
pub const MSBF: u8 = 0x02;
pub const WEID: u8 = 0x04;
pub const WSID: u8 = 0x08;
pub const WTMS: u8 = 0x10;

pub fn ref_std_header_len(htyp: u8) -> u16 {
    4 + if htyp & WEID != 0 { 4 } else { 0 }
        + if htyp & WSID != 0 { 4 } else { 0 }
        + if htyp & WTMS != 0 { 4 } else { 0 }
}
pub fn ref_all_headers_len(htyp: u8) -> u16 {
    ref_std_header_len(htyp) + if htyp & UEH != 0 { 10 } else { 0 }
}

/// Type-info word layout (PRS_Dlt_00135 ff.)
pub const TI_TYLE_MASK: u32 = 0xF;
pub const TI_BOOL: u32 = 1 << 4;
pub const TI_SINT: u32 = 1 << 5;
pub const TI_UINT: u32 = 1 << 6;
pub const TI_FLOA: u32 = 1 << 7;
pub const TI_ARAY: u32 = 1 << 8;
pub const TI_STRG: u32 = 1 << 9;
pub const TI_RAWD: u32 = 1 << 10;
pub const TI_VARI: u32 = 1 << 11;
pub const TI_FIXP: u32 = 1 << 12;
pub const TI_TRAI: u32 = 1 << 13;
pub const TI_STRU: u32 = 1 << 14;
pub const TI_SCOD_SHIFT: u32 = 15;

#[derive(Clone, Copy, PartialEq, Eq)]
pub enum RefKind {
    Bool,
    Signed(u8),        // width in bytes 1,2,4,8,16
    SignedFixed(u8),   // width in bytes 4,8
    Unsigned(u8),
    UnsignedFixed(u8),
    Float(u8), // 4,8
    Str,
    Raw,
}

#[derive(Clone, Copy, PartialEq, Eq)]
pub struct RefTypeInfo {
    pub kind: RefKind,
    pub scod: u8,
    pub vari: bool,
    pub trai: bool,
}

fn tyle_bytes(tyle: u32) -> Option<u8> {
    match tyle {
        1 => Some(1),
        2 => Some(2),
        3 => Some(4),
        4 => Some(8),
        5 => Some(16),
        _ => None,
    }
}

/// Reference decoder of a type-info word: `None` = not exactly one supported kind with a
/// supported width.
pub fn ref_decode_type_info(w: u32) -> Option<RefTypeInfo> {
    let kinds = w & (TI_BOOL | TI_SINT | TI_UINT | TI_FLOA | TI_ARAY | TI_STRG | TI_RAWD);
    let tyle = w & TI_TYLE_MASK;
    let fixp = w & TI_FIXP != 0;
    let kind = if kinds == TI_BOOL {
        RefKind::Bool
    } else if kinds == TI_SINT || kinds == TI_UINT {
        let b = tyle_bytes(tyle)?;
        if fixp {
            if b != 4 && b != 8 {
                return None;
            }
            if kinds == TI_SINT { RefKind::SignedFixed(b) } else { RefKind::UnsignedFixed(b) }
        } else if kinds == TI_SINT {
            RefKind::Signed(b)
        } else {
            RefKind::Unsigned(b)
        }
    } else if kinds == TI_FLOA {
        let b = tyle_bytes(tyle)?;
        if b != 4 && b != 8 {
            return None;
        }
        RefKind::Float(b)
    } else if kinds == TI_STRG {
        RefKind::Str
    } else if kinds == TI_RAWD {
        RefKind::Raw
    } else {
        return None;
    };
    Some(RefTypeInfo {
        kind,
        scod: ((w >> TI_SCOD_SHIFT) & 7) as u8,
        vari: w & TI_VARI != 0,
        trai: w & TI_TRAI != 0,
    })
}

/// Bits of a type-info word that the format leaves unused for the given kind.
pub fn ref_unused_mask(k: RefKind) -> u32 {
    let always: u32 = TI_STRU | 0xFFFC_0000;
    match k {
        RefKind::Signed(_) | RefKind::Unsigned(_) | RefKind::SignedFixed(_) | RefKind::UnsignedFixed(_) => always,
        RefKind::Float(_) => always | TI_FIXP,
        RefKind::Bool | RefKind::Str | RefKind::Raw => always | TI_FIXP | TI_TYLE_MASK,
    }
}

// =============================================================================================
// Reference ENCODER of whole messages (AUTOSAR DLT PRS layout), writing into a fixed buffer.
// =============================================================================================
use crate::dlt::*;

pub const CAP: usize = 112;

pub struct Out {
    pub b: [u8; CAP],
    pub n: usize,
}
impl Out {
    pub fn new() -> Self {
        Out { b: [0; CAP], n: 0 }
    }
    pub fn put(&mut self, x: u8) {
        if self.n < CAP {
            self.b[self.n] = x;
        }
        self.n += 1;
    }
    pub fn put_slice(&mut self, s: &[u8]) {
        let mut i = 0;
        while i < s.len() {
            self.put(s[i]);
            i += 1;
        }
    }
    pub fn put_u16(&mut self, v: u16, big: bool) {
        if big { self.put_slice(&v.to_be_bytes()) } else { self.put_slice(&v.to_le_bytes()) }
    }
    pub fn put_u32(&mut self, v: u32, big: bool) {
        if big { self.put_slice(&v.to_be_bytes()) } else { self.put_slice(&v.to_le_bytes()) }
    }
    pub fn put_u64(&mut self, v: u64, big: bool) {
        if big { self.put_slice(&v.to_be_bytes()) } else { self.put_slice(&v.to_le_bytes()) }
    }
    pub fn put_u128(&mut self, v: u128, big: bool) {
        if big { self.put_slice(&v.to_be_bytes()) } else { self.put_slice(&v.to_le_bytes()) }
    }
    /// 4-byte id field: the id bytes padded with NUL
    pub fn put_id4(&mut self, id: &str) {
        let b = id.as_bytes();
        let mut i = 0;
        while i < 4 {
            self.put(if i < b.len() { b[i] } else { 0 });
            i += 1;
        }
    }
    pub fn as_slice(&self) -> &[u8] {
        &self.b[..if self.n < CAP { self.n } else { CAP }]
    }
    pub fn eq_bytes(&self, other: &[u8]) -> bool {
        if self.n > CAP || other.len() != self.n {
            return false;
        }
        let mut i = 0;
        while i < self.n {
            if self.b[i] != other[i] {
                return false;
            }
            i += 1;
        }
        true
    }
}

pub fn ref_msin(t: &MessageType) -> u8 {
    let (mstp, mtin): (u8, u8) = match t {
        MessageType::Log(l) => (0, match l {
            LogLevel::Fatal => 1,
            LogLevel::Error => 2,
            LogLevel::Warn => 3,
            LogLevel::Info => 4,
            LogLevel::Debug => 5,
            LogLevel::Verbose => 6,
            LogLevel::Invalid(v) => *v,
        }),
        MessageType::ApplicationTrace(a) => (1, match a {
            ApplicationTraceType::Variable => 1,
            ApplicationTraceType::FunctionIn => 2,
            ApplicationTraceType::FunctionOut => 3,
            ApplicationTraceType::State => 4,
            ApplicationTraceType::Vfb => 5,
            ApplicationTraceType::Invalid(v) => *v,
        }),
        MessageType::NetworkTrace(n) => (2, match n {
            NetworkTraceType::Invalid => 0,
            NetworkTraceType::Ipc => 1,
            NetworkTraceType::Can => 2,
            NetworkTraceType::Flexray => 3,
            NetworkTraceType::Most => 4,
            NetworkTraceType::Ethernet => 5,
            NetworkTraceType::Someip => 6,
            NetworkTraceType::UserDefined(v) => *v,
        }),
        MessageType::Control(c) => (3, match c {
            ControlType::Request => 1,
            ControlType::Response => 2,
            ControlType::Unknown(v) => *v,
        }),
        MessageType::Unknown((a, b)) => (*a, *b),
    };
    ((mstp & 7) << 1) | ((mtin & 0xF) << 4)
}

/// canonical codes: the sub-type number is not one that has its own variant, and fits its field
pub fn msg_type_canonical(t: &MessageType) -> bool {
    match t {
        MessageType::Log(LogLevel::Invalid(v)) => (*v == 0 || *v > 6) && *v <= 15,
        MessageType::ApplicationTrace(ApplicationTraceType::Invalid(v)) => (*v == 0 || *v > 5) && *v <= 15,
        MessageType::NetworkTrace(NetworkTraceType::UserDefined(v)) => *v > 6 && *v <= 15,
        MessageType::Control(ControlType::Unknown(v)) => (*v == 0 || *v > 2) && *v <= 15,
        MessageType::Unknown((a, b)) => *a >= 4 && *a <= 7 && *b <= 15,
        _ => true,
    }
}

pub fn ref_htyp(h: &StandardHeader) -> u8 {
    (if h.has_extended_header { UEH } else { 0 })
        | (if h.endianness == Endianness::Big { MSBF } else { 0 })
        | (if h.ecu_id.is_some() { WEID } else { 0 })
        | (if h.session_id.is_some() { WSID } else { 0 })
        | (if h.timestamp.is_some() { WTMS } else { 0 })
        | ((h.version & 7) << 5)
}

pub fn ref_put_storage_header(o: &mut Out, sh: &StorageHeader) {
    o.put(b'D');
    o.put(b'L');
    o.put(b'T');
    o.put(1);
    o.put_u32(sh.timestamp.seconds, false);
    o.put_u32(sh.timestamp.microseconds, false);
    o.put_id4(&sh.ecu_id);
}

/// standard header with the given overall length LEN
pub fn ref_put_std_header(o: &mut Out, h: &StandardHeader, len: u16) {
    o.put(ref_htyp(h));
    o.put(h.message_counter);
    o.put_u16(len, true);
    if let Some(id) = &h.ecu_id {
        o.put_id4(id);
    }
    if let Some(s) = h.session_id {
        o.put_u32(s, true);
    }
    if let Some(t) = h.timestamp {
        o.put_u32(t, true);
    }
}

pub fn ref_put_ext_header(o: &mut Out, e: &ExtendedHeader) {
    o.put(ref_msin(&e.message_type) | (if e.verbose { 1 } else { 0 }));
    o.put(e.argument_count);
    o.put_id4(&e.application_id);
    o.put_id4(&e.context_id);
}

pub fn ref_type_info_word(ti: &TypeInfo) -> u32 {
    fn tyle(t: TypeLength) -> u32 {
        match t {
            TypeLength::BitLength8 => 1,
            TypeLength::BitLength16 => 2,
            TypeLength::BitLength32 => 3,
            TypeLength::BitLength64 => 4,
            TypeLength::BitLength128 => 5,
        }
    }
    fn tylf(t: FloatWidth) -> u32 {
        match t {
            FloatWidth::Width32 => 3,
            FloatWidth::Width64 => 4,
        }
    }
    let k = match ti.kind {
        TypeInfoKind::Bool => TI_BOOL,
        TypeInfoKind::Signed(w) => TI_SINT | tyle(w),
        TypeInfoKind::SignedFixedPoint(w) => TI_SINT | TI_FIXP | tylf(w),
        TypeInfoKind::Unsigned(w) => TI_UINT | tyle(w),
        TypeInfoKind::UnsignedFixedPoint(w) => TI_UINT | TI_FIXP | tylf(w),
        TypeInfoKind::Float(w) => TI_FLOA | tylf(w),
        TypeInfoKind::StringType => TI_STRG,
        TypeInfoKind::Raw => TI_RAWD,
    };
    let scod: u32 = match ti.coding {
        StringCoding::ASCII => 0,
        StringCoding::UTF8 => 1,
        StringCoding::Reserved(v) => (v & 7) as u32,
    };
    k | (if ti.has_variable_info { TI_VARI } else { 0 })
        | (if ti.has_trace_info { TI_TRAI } else { 0 })
        | (scod << TI_SCOD_SHIFT)
}

fn put_text(o: &mut Out, s: &str) {
    o.put_slice(s.as_bytes());
    o.put(0);
}

/// one verbose argument (well-formed: value variant / fixed-point data / name / unit presence
/// match the type info)
pub fn ref_put_argument(o: &mut Out, a: &Argument, big: bool) {
    o.put_u32(ref_type_info_word(&a.type_info), big);
    let vari = a.type_info.has_variable_info;
    let name: &str = match &a.name { Some(n) => n, None => "" };
    let unit: &str = match &a.unit { Some(n) => n, None => "" };
    match a.type_info.kind {
        TypeInfoKind::Bool => {
            if vari {
                o.put_u16(name.len() as u16 + 1, big);
                put_text(o, name);
            }
            if let Value::Bool(v) = a.value {
                o.put(v);
            }
        }
        TypeInfoKind::StringType => {
            if let Value::StringVal(s) = &a.value {
                o.put_u16(s.len() as u16 + 1, big);
                if vari {
                    o.put_u16(name.len() as u16 + 1, big);
                    put_text(o, name);
                }
                put_text(o, s);
            }
        }
        TypeInfoKind::Raw => {
            if let Value::Raw(b) = &a.value {
                o.put_u16(b.len() as u16, big);
                if vari {
                    o.put_u16(name.len() as u16 + 1, big);
                    put_text(o, name);
                }
                o.put_slice(b);
            }
        }
        _ => {
            if vari {
                o.put_u16(name.len() as u16 + 1, big);
                o.put_u16(unit.len() as u16 + 1, big);
                put_text(o, name);
                put_text(o, unit);
            }
            if let Some(fp) = &a.fixed_point {
                o.put_u32(fp.quantization.to_bits(), big);
                match fp.offset {
                    FixedPointValue::I32(v) => o.put_u32(v as u32, big),
                    FixedPointValue::I64(v) => o.put_u64(v as u64, big),
                }
            }
            match a.value {
                Value::U8(v) => o.put(v),
                Value::I8(v) => o.put(v as u8),
                Value::U16(v) => o.put_u16(v, big),
                Value::I16(v) => o.put_u16(v as u16, big),
                Value::U32(v) => o.put_u32(v, big),
                Value::I32(v) => o.put_u32(v as u32, big),
                Value::U64(v) => o.put_u64(v, big),
                Value::I64(v) => o.put_u64(v as u64, big),
                Value::U128(v) => o.put_u128(v, big),
                Value::I128(v) => o.put_u128(v as u128, big),
                Value::F32(v) => o.put_u32(v.to_bits(), big),
                Value::F64(v) => o.put_u64(v.to_bits(), big),
                _ => {}
            }
        }
    }
}

pub fn ref_put_payload(o: &mut Out, p: &PayloadContent, big: bool) {
    match p {
        PayloadContent::Verbose(args) => {
            let mut i = 0;
            while i < args.len() {
                ref_put_argument(o, &args[i], big);
                i += 1;
            }
        }
        PayloadContent::NonVerbose(id, data) => {
            o.put_u32(*id, big);
            o.put_slice(data);
        }
        PayloadContent::ControlMsg(ct, data) => {
            o.put(match ct {
                ControlType::Request => 1,
                ControlType::Response => 2,
                ControlType::Unknown(v) => *v,
            });
            o.put_slice(data);
        }
        PayloadContent::NetworkTrace(slices) => {
            // each slice is a raw-data argument: type info RAWD, 16-bit length, bytes
            let mut i = 0;
            while i < slices.len() {
                o.put_u32(TI_RAWD, big);
                o.put_u16(slices[i].len() as u16, big);
                o.put_slice(&slices[i]);
                i += 1;
            }
        }
    }
}

/// whole message; LEN is computed from the encoded parts (not from `header.payload_length`)
pub fn ref_encode_message(m: &Message) -> Out {
    let big = m.header.endianness == Endianness::Big;
    let mut pl = Out::new();
    ref_put_payload(&mut pl, &m.payload, big);
    let len = ref_all_headers_len(ref_htyp(&m.header)) as usize + pl.n;
    let mut o = Out::new();
    if let Some(sh) = &m.storage_header {
        ref_put_storage_header(&mut o, sh);
    }
    ref_put_std_header(&mut o, &m.header, len as u16);
    if let Some(e) = &m.extended_header {
        ref_put_ext_header(&mut o, e);
    }
    o.put_slice(pl.as_slice());
    o
}

pub fn ref_payload_len(p: &PayloadContent, big: bool) -> usize {
    let mut pl = Out::new();
    ref_put_payload(&mut pl, p, big);
    pl.n
}
