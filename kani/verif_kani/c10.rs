//! C10 — statistics count every message once per id and merge like a sum.
//! (LevelDistribution::merge is proved unbounded by the Verus unit c10_merge.)
use super::c09::any_log_level;
use super::util::*;
use crate::dlt::*;
use crate::statistics::common::*;
use crate::statistics::*;

fn ld_get(d: &LevelDistribution) -> [usize; 8] {
    [d.non_log, d.log_fatal, d.log_error, d.log_warning, d.log_info, d.log_debug, d.log_verbose, d.log_invalid]
}

/// bucket index the property prescribes for a level
pub fn ref_bucket(l: &Option<LogLevel>) -> usize {
    match l {
        None => 0,
        Some(LogLevel::Fatal) => 1,
        Some(LogLevel::Error) => 2,
        Some(LogLevel::Warn) => 3,
        Some(LogLevel::Info) => 4,
        Some(LogLevel::Debug) => 5,
        Some(LogLevel::Verbose) => 6,
        Some(LogLevel::Invalid(_)) => 7,
    }
}

pub fn post_ld_new(level: &Option<LogLevel>, r: &LevelDistribution) -> bool {
    let g = ld_get(r);
    let b = ref_bucket(level);
    let mut i = 0;
    while i < 8 {
        if g[i] != (if i == b { 1 } else { 0 }) {
            return false;
        }
        i += 1;
    }
    true
}

#[kani::proof_for_contract(crate::statistics::common::LevelDistribution::new)]
fn c10_level_distribution_new_contract() {
    let l = if kani::any() { Some(any_log_level()) } else { None };
    let _ = LevelDistribution::new(l);
}

fn any_ld() -> LevelDistribution {
    let v: [u32; 8] = kani::any();
    LevelDistribution {
        non_log: v[0] as usize,
        log_fatal: v[1] as usize,
        log_error: v[2] as usize,
        log_warning: v[3] as usize,
        log_info: v[4] as usize,
        log_debug: v[5] as usize,
        log_verbose: v[6] as usize,
        log_invalid: v[7] as usize,
    }
}

fn pick_id(k: u8) -> String {
    match k % 3 {
        0 => String::from("A"),
        1 => String::from("B"),
        _ => String::from("C"),
    }
}

fn id_index(s: &str) -> usize {
    if s == "A" { 0 } else if s == "B" { 1 } else { 2 }
}

/// table with <= 2 entries with distinct ids from {A,B,C}; also returned as a dense 3x8 tally
fn any_table() -> (Vec<(String, LevelDistribution)>, [[usize; 8]; 3], [bool; 3]) {
    let mut t = Vec::new();
    let mut tally = [[0usize; 8]; 3];
    let mut present = [false; 3];
    let n: u8 = kani::any();
    kani::assume(n <= 2);
    let k0: u8 = kani::any();
    let k1: u8 = kani::any();
    kani::assume(k0 < 3 && k1 < 3 && k0 != k1);
    if n >= 1 {
        let d = any_ld();
        tally[k0 as usize] = ld_get(&d);
        present[k0 as usize] = true;
        t.push((pick_id(k0), d));
    }
    if n >= 2 {
        let d = any_ld();
        tally[k1 as usize] = ld_get(&d);
        present[k1 as usize] = true;
        t.push((pick_id(k1), d));
    }
    (t, tally, present)
}

fn table_matches(t: &Vec<(String, LevelDistribution)>, tally: &[[usize; 8]; 3], present: &[bool; 3]) -> bool {
    let mut seen = [false; 3];
    let mut i = 0;
    while i < t.len() {
        let k = id_index(&t[i].0);
        if seen[k] || !present[k] {
            return false;
        }
        seen[k] = true;
        if ld_get(&t[i].1) != tally[k] {
            return false;
        }
        i += 1;
    }
    seen[0] == present[0] && seen[1] == present[1] && seen[2] == present[2]
}

/// StatisticInfo::merge == independent per-id sum (ids from a 3-id alphabet, <= 2 entries per
/// table, symbolic 32-bit counts), and the flag is the OR
#[kani::proof]
#[kani::unwind(6)]
fn c10_merge_tables() {
    let (a, ta, pa) = any_table();
    let (b, tb, pb) = any_table();
    let fa: bool = kani::any();
    let fb: bool = kani::any();
    let mut x = StatisticInfo { app_ids: a, context_ids: vec![], ecu_ids: vec![], contained_non_verbose: fa };
    let y = StatisticInfo { app_ids: b, context_ids: vec![], ecu_ids: vec![], contained_non_verbose: fb };
    x.merge(y);
    let mut sum = [[0usize; 8]; 3];
    let mut pres = [false; 3];
    let mut i = 0;
    while i < 3 {
        let mut j = 0;
        while j < 8 {
            sum[i][j] = ta[i][j] + tb[i][j];
            j += 1;
        }
        pres[i] = pa[i] || pb[i];
        i += 1;
    }
    assert!(table_matches(&x.app_ids, &sum, &pres));
    assert!(x.contained_non_verbose == (fa || fb));
    assert!(x.context_ids.len() == 0 && x.ecu_ids.len() == 0);
}

/// the standard collector: one call adds exactly one count in the bucket of the level, for the
/// ECU id (or "NONE"), the application id and the context id; other entries untouched
#[kani::proof]
#[kani::stub(alloc::fmt::format, fmt_stub)]
#[kani::unwind(8)]
fn c10_collector_two_messages() {
    let mut c = StatisticInfoCollector::default();
    let mut tally_app = [[0usize; 8]; 3];
    let mut tally_ecu = [[0usize; 8]; 4]; // 3 = NONE
    let mut any_nonverbose = false;
    let mut total = 0usize;
    let mut round = 0;
    while round < 2 {
        let level = if kani::any() { Some(any_log_level()) } else { None };
        let ka: u8 = kani::any();
        let ke: u8 = kani::any();
        kani::assume(ka < 3 && ke < 4);
        let verbose: bool = kani::any();
        let has_ext: bool = kani::any();
        let st = Statistic {
            log_level: level,
            storage_header: None,
            standard_header: StandardHeader {
                version: 1,
                endianness: Endianness::Little,
                has_extended_header: has_ext,
                message_counter: 0,
                ecu_id: if ke < 3 { Some(pick_id(ke)) } else { None },
                session_id: None,
                timestamp: None,
                payload_length: 0,
            },
            extended_header: if has_ext {
                Some(ExtendedHeader {
                    verbose,
                    argument_count: 0,
                    message_type: match level { Some(l) => MessageType::Log(l), None => MessageType::Control(ControlType::Request) },
                    application_id: pick_id(ka),
                    context_id: pick_id(ka),
                })
            } else {
                None
            },
            payload: &[],
            is_verbose: verbose && has_ext,
        };
        let b = ref_bucket(&level);
        tally_ecu[ke as usize][b] += 1;
        if has_ext {
            tally_app[ka as usize][b] += 1;
        }
        if !(verbose && has_ext) {
            any_nonverbose = true;
        }
        total += 1;
        match c.collect_statistic(st) {
            Ok(()) => {}
            Err(_) => { assert!(false); }
        }
        round += 1;
    }
    let info = c.collect();
    assert!(info.contained_non_verbose == any_nonverbose);
    // every entry equals the independent tally; ECU totals add up to the number of messages
    let mut ecu_total = 0usize;
    let mut i = 0;
    while i < info.ecu_ids.len() {
        let (id, d) = &info.ecu_ids[i];
        let k = if id == "NONE" { 3 } else { id_index(id) };
        assert!(ld_get(d) == tally_ecu[k]);
        let g = ld_get(d);
        let mut j = 0;
        while j < 8 { ecu_total += g[j]; j += 1; }
        i += 1;
    }
    assert!(ecu_total == total);
    let mut i = 0;
    while i < info.app_ids.len() {
        let (id, d) = &info.app_ids[i];
        assert!(ld_get(d) == tally_app[id_index(id)]);
        i += 1;
    }
    assert!(info.app_ids.len() == info.context_ids.len());
}
