//! C10 — statistics count every message once per id and merge like a sum.
//! (LevelDistribution::merge is proved unbounded by the Verus unit c10_merge.)
use super::c09::any_log_level;
use super::util::*;
use crate::dlt::*;
use crate::statistics::common::*;
use crate::statistics::*;

fn ld_get(d: &LevelDistribution) -> [usize; 8] {
    [d.non_log, d.log_fatal, d.log_error, d.log_warning, d.log_info, d.log_debug, d.log_verbose, d.log_invalid]
}

/// bucket index the property prescribes for a level
pub fn ref_bucket(l: &Option<LogLevel>) -> usize {
    match l {
        None => 0,
        Some(LogLevel::Fatal) => 1,
        Some(LogLevel::Error) => 2,
        Some(LogLevel::Warn) => 3,
        Some(LogLevel::Info) => 4,
        Some(LogLevel::Debug) => 5,
        Some(LogLevel::Verbose) => 6,
        Some(LogLevel::Invalid(_)) => 7,
    }
}

pub fn post_ld_new(level: &Option<LogLevel>, r: &LevelDistribution) -> bool {
    let g = ld_get(r);
    let b = ref_bucket(level);
    let mut i = 0;
    while i < 8 {
        if g[i] != (if i == b { 1 } else { 0 }) {
            return false;
        }
        i += 1;
    }
    true
}

#[kani::proof_for_contract(crate::statistics::common::LevelDistribution::new)]
fn c10_level_distribution_new_contract() {
    let l = if kani::any() { Some(any_log_level()) } else { None };
    let _ = LevelDistribution::new(l);
}
