//! C06 — storage-header resync. The search is memchr::memmem; its CPUID-dispatched SIMD paths
//! cannot be executed by Kani, so the two `is_available` probes are stubbed to "no SIMD" and the
//! REAL scalar memmem code (Rabin-Karp / Two-Way) is verified against a naive first-occurrence
//! reference.
use super::util::*;
use crate::parse::*;

fn check_forward(input: &[u8]) {
    let r = forward_to_next_storage_header(input);
    match (r, ref_find_pattern(input)) {
        (Some((k, rest)), Some(e)) => {
            assert!(k as usize == e);
            assert!(bytes_eq(rest, &input[e..]));
        }
        (None, None) => {}
        _ => { assert!(false); }
    }
}

#[kani::proof]
#[kani::stub(std::arch::x86_64::__cpuid_count, cpuid_count_stub)]
#[kani::stub(std::arch::x86_64::__cpuid, cpuid_stub)]
#[kani::stub(memchr::arch::x86_64::sse2::packedpair::Finder::is_available, no_simd)]
#[kani::unwind(12)]
fn c06_forward_n8() {
    const N: usize = 8;
    let buf: [u8; N] = kani::any();
    let n: usize = kani::any();
    kani::assume(n <= N);
    check_forward(&buf[..n]);
}

#[kani::proof]
#[kani::stub(std::arch::x86_64::__cpuid_count, cpuid_count_stub)]
#[kani::stub(std::arch::x86_64::__cpuid, cpuid_stub)]
#[kani::stub(memchr::arch::x86_64::sse2::packedpair::Finder::is_available, no_simd)]
#[kani::unwind(14)]
fn c06_forward_n10() {
    const N: usize = 10;
    let buf: [u8; N] = kani::any();
    let n: usize = kani::any();
    kani::assume(n >= 9 && n <= N);
    check_forward(&buf[..n]);
}

/// junk ++ message parses to the same message and the same remainder; the shift equals |junk|.
/// The search is replaced by its proved contract (fwd_stub).
#[kani::proof]
#[kani::stub(alloc::fmt::format, fmt_stub)]
#[kani::stub(crate::parse::forward_to_next_storage_header, fwd_stub)]
#[kani::unwind(50)]
fn c06_resync_junk() {
    use super::c01::*;
    use super::gen::*;
    use crate::dlt::*;
    let p = PayloadContent::NonVerbose(kani::any(), any_bytes::<1>());
    let m = finish_message::<2>(p, None, true);
    let bytes = m.as_bytes();
    let junk: [u8; 3] = kani::any();
    let j: usize = kani::any();
    kani::assume(j <= 3);
    let tail: [u8; 1] = kani::any();
    let mut buf: Vec<u8> = Vec::new();
    let mut i = 0;
    while i < 3 {
        if i < j {
            buf.push(junk[i]);
        }
        i += 1;
    }
    let mut i = 0;
    while i < bytes.len() {
        buf.push(bytes[i]);
        i += 1;
    }
    buf.push(tail[0]);
    // the junk contains no pattern occurrence and creates none straddling into the message
    kani::assume(ref_find_pattern(&buf) == Some(j));
    match crate::parse::dlt_storage_header(&buf) {
        Ok((_, Some((_, shift)))) => { assert!(shift as usize == j); }
        _ => { assert!(false); }
    }
    match (dlt_message(&buf, None, true), dlt_message(&buf[j..], None, true)) {
        (Ok((r1, ParsedMessage::Item(m1))), Ok((r2, ParsedMessage::Item(m2)))) => {
            assert!(message_eq(&m1, &m2));
            assert!(message_eq(&m1, &m));
            assert!(bytes_eq(r1, r2));
            assert!(bytes_eq(r1, &tail));
        }
        _ => { assert!(false); }
    }
}

/// dlt_storage_header with junk in front of the pattern (the leaf contract sto_header_post for
/// shift > 0): the header is parsed from the first pattern occurrence, the shift is reported,
/// the rest starts 16 bytes after it. 2 junk bytes (any values that do not create an earlier
/// occurrence), real memchr scalar search.
#[kani::proof]
#[kani::stub(alloc::fmt::format, super::util::fmt_stub)]
#[kani::stub(std::arch::x86_64::__cpuid_count, cpuid_count_stub)]
#[kani::stub(std::arch::x86_64::__cpuid, cpuid_stub)]
#[kani::stub(memchr::arch::x86_64::sse2::packedpair::Finder::is_available, no_simd)]
#[kani::unwind(24)]
fn c06_sto_header_shift2() {
    let j: [u8; 2] = kani::any();
    let t: [u8; 8] = kani::any();
    let tail: [u8; 1] = kani::any();
    let buf: [u8; 19] = [j[0], j[1], b'D', b'L', b'T', 1, t[0], t[1], t[2], t[3], t[4], t[5], t[6], t[7], b'E', b'C', b'U', 0, tail[0]];
    kani::assume(ref_find_pattern(&buf) == Some(2));
    match crate::parse::dlt_storage_header(&buf) {
        Ok((rest, Some((sh, shift)))) => {
            assert!(shift == 2);
            assert!(rest.len() == 1 && rest[0] == tail[0]);
            assert!(sh.timestamp.seconds == u32::from_le_bytes([t[0], t[1], t[2], t[3]]));
            assert!(sh.timestamp.microseconds == u32::from_le_bytes([t[4], t[5], t[6], t[7]]));
            assert!(bytes_eq(sh.ecu_id.as_bytes(), b"ECU"));
        }
        _ => { assert!(false); }
    }
}
