//! C01 — serialise-then-parse identity and exact consumption (also carries the encoding half of
//! C02: real bytes == reference encoder; C15: len() == serialised length; C16 stability).
//! Layer by layer: headers (complete over all well-formed header values), arguments (one
//! harness per kind/width; fixed-size kinds are complete, text is bounded), payloads, messages.
use super::c18::{any_coding, any_float_width, any_type_length};
use super::gen::*;
use super::refcodec::*;
use super::util::*;
use crate::dlt::*;
use crate::parse::*;
use byteorder::{BigEndian, LittleEndian};

// ---------------------------------------------------------------------------------------------
// headers
// ---------------------------------------------------------------------------------------------

/// Standard header, WRITER side: write(h) == reference layout for every well-formed header value
/// (all flag combinations, versions, counters, session / timestamp / length values; one harness
/// per ECU-id shape). The PARSER side is c02_dec_std_header (real parser == layout reading on ALL
/// 16-byte inputs); the lemma c01_ref_std_header_positions shows on the reference alone that
/// reading the layout of h at the positions the decoder harness uses gives back h. Together:
/// parse(write(h) ++ tail) == (h, tail). (A direct round-trip harness through writer and parser
/// did not finish within 16 GB: the parser's optional-field dispatch depends on symbolic HTYP bits.)
fn w_std_header(ecu_id: Option<String>, with_session: bool, with_timestamp: bool, v: u8, big: bool, ueh: bool) {
    // version / byte order / UEH are constants per harness as well: the writer sizes its buffer
    // from the HTYP byte, and a partly symbolic HTYP gives a symbolic allocation size (does not
    // finish). All 256 compositions of HTYP are the contract proof ind_standard_header_type_contract.
    let mut h = StandardHeader {
        version: v,
        endianness: if big { Endianness::Big } else { Endianness::Little },
        has_extended_header: ueh,
        message_counter: kani::any(),
        ecu_id,
        // presence of the optional fields: constant per harness (it decides the output size;
        // symbolic presence did not finish within 8 GB); the values are symbolic
        session_id: if with_session { Some(kani::any()) } else { None },
        timestamp: if with_timestamp { Some(kani::any()) } else { None },
        payload_length: 0,
    };
    let pl: u16 = kani::any();
    let hl = ref_all_headers_len(ref_htyp(&h));
    kani::assume(pl as u32 + hl as u32 <= 65535);
    h.payload_length = pl;
    let bytes = h.as_bytes();
    let mut o = Out::new();
    ref_put_std_header(&mut o, &h, hl + pl);
    assert!(o.eq_bytes(&bytes));
    assert!(bytes.len() == ref_std_header_len(ref_htyp(&h)) as usize);
}

macro_rules! std_header_harness {
    ($name:ident, $ecu:expr, $sid:expr, $tms:expr, $v:expr, $big:expr, $ueh:expr) => {
        #[kani::proof]
        #[kani::stub(alloc::fmt::format, fmt_stub)]
        #[kani::unwind(24)]
        fn $name() {
            w_std_header($ecu, $sid, $tms, $v, $big, $ueh);
        }
    };
}
std_header_harness!(c01_w_std_header_none, None, false, false, 1, false, false);
std_header_harness!(c01_w_std_header_none_sid_tms, None, true, true, 7, true, true);
std_header_harness!(c01_w_std_header_e0_tms, Some(text_exact::<0>()), false, true, 0, true, false);
std_header_harness!(c01_w_std_header_e2_sid, Some(text_exact::<2>()), true, false, 2, false, true);
std_header_harness!(c01_w_std_header_e4_all, Some(text_exact::<4>()), true, true, 1, false, true);
std_header_harness!(c01_w_std_header_e3mb, Some(text_exact_mb::<3>()), false, false, 5, true, true);

/// pure reference lemma: the layout of a header value, read back at the positions and in the way
/// the decoder harness c02_dec_std_header prescribes, is that header value
#[kani::proof]
#[kani::unwind(24)]
fn c01_ref_std_header_positions() {
    let v: u8 = kani::any();
    kani::assume(v <= 7);
    let id: [u8; 4] = kani::any();
    let with_ecu: bool = kani::any();
    let sid: Option<u32> = if kani::any() { Some(kani::any()) } else { None };
    let tms: Option<u32> = if kani::any() { Some(kani::any()) } else { None };
    let big: bool = kani::any();
    let ueh: bool = kani::any();
    let mcnt: u8 = kani::any();
    let len: u16 = kani::any();
    // layout
    let htyp = (ueh as u8) | ((big as u8) << 1) | ((with_ecu as u8) << 2) | ((sid.is_some() as u8) << 3) | ((tms.is_some() as u8) << 4) | (v << 5);
    let mut o = Out::new();
    o.put(htyp);
    o.put(mcnt);
    o.put_u16(len, true);
    if with_ecu { o.put_slice(&id); }
    if let Some(s) = sid { o.put_u32(s, true); }
    if let Some(t) = tms { o.put_u32(t, true); }
    // reading
    let b = o.as_slice();
    assert!(b.len() == ref_std_header_len(htyp) as usize);
    assert!(b[0] >> 5 == v && (b[0] & UEH != 0) == ueh && (b[0] & MSBF != 0) == big);
    assert!(b[1] == mcnt && u16::from_be_bytes([b[2], b[3]]) == len);
    let mut off = 4;
    assert!((b[0] & WEID != 0) == with_ecu);
    if with_ecu {
        assert!(b[off] == id[0] && b[off + 1] == id[1] && b[off + 2] == id[2] && b[off + 3] == id[3]);
        off += 4;
    }
    assert!((b[0] & WSID != 0) == sid.is_some());
    if let Some(s) = sid {
        assert!(u32::from_be_bytes([b[off], b[off + 1], b[off + 2], b[off + 3]]) == s);
        off += 4;
    }
    assert!((b[0] & WTMS != 0) == tms.is_some());
    if let Some(t) = tms {
        assert!(u32::from_be_bytes([b[off], b[off + 1], b[off + 2], b[off + 3]]) == t);
        off += 4;
    }
    assert!(off == b.len());
}

fn rt_ext_header(application_id: String, context_id: String) {
    let e = ExtendedHeader {
        verbose: kani::any(),
        argument_count: kani::any(),
        message_type: any_canonical_message_type(),
        application_id,
        context_id,
    };
    let bytes = e.as_bytes();
    let mut o = Out::new();
    ref_put_ext_header(&mut o, &e);
    assert!(o.eq_bytes(&bytes));
    let tail: [u8; 2] = kani::any();
    let mut buf = bytes.clone();
    buf.push(tail[0]);
    buf.push(tail[1]);
    match dlt_extended_header(&buf) {
        Ok((rest, e2)) => {
            assert!(ext_header_eq(&e, &e2));
            assert!(bytes_eq(rest, &tail));
        }
        Err(_) => { assert!(false); }
    }
}

macro_rules! ext_header_harness {
    ($name:ident, $a:expr, $c:expr) => {
        #[kani::proof]
        #[kani::stub(alloc::fmt::format, fmt_stub)]
        #[kani::unwind(24)]
        fn $name() {
            rt_ext_header(text_exact::<$a>(), text_exact::<$c>());
        }
    };
}
// every length of each id field occurs (the two fields go through the same code)
ext_header_harness!(c01_rt_ext_header_a0c4, 0, 4);
ext_header_harness!(c01_rt_ext_header_a1c3, 1, 3);
ext_header_harness!(c01_rt_ext_header_a2c2, 2, 2);
ext_header_harness!(c01_rt_ext_header_a3c1, 3, 1);
ext_header_harness!(c01_rt_ext_header_a4c0, 4, 0);
ext_header_harness!(c01_rt_ext_header_a4c4, 4, 4);

fn rt_sto_header(ecu_id: String) {
    let sh = StorageHeader { timestamp: DltTimeStamp { seconds: kani::any(), microseconds: kani::any() }, ecu_id };
    let bytes = sh.as_bytes();
    let mut o = Out::new();
    ref_put_storage_header(&mut o, &sh);
    assert!(o.eq_bytes(&bytes));
    assert!(bytes.len() == 16);
    let tail: [u8; 2] = kani::any();
    let mut buf = bytes.clone();
    buf.push(tail[0]);
    buf.push(tail[1]);
    match dlt_storage_header(&buf) {
        Ok((rest, Some((sh2, shift)))) => {
            assert!(shift == 0);
            assert!(storage_header_eq(&sh, &sh2));
            assert!(bytes_eq(rest, &tail));
        }
        _ => { assert!(false); }
    }
}

macro_rules! sto_header_harness {
    ($name:ident, $n:expr) => {
        #[kani::proof]
        #[kani::stub(alloc::fmt::format, fmt_stub)]
        #[kani::stub(crate::parse::forward_to_next_storage_header, fwd_stub)]
        #[kani::unwind(24)]
        fn $name() {
            rt_sto_header(text_exact::<$n>());
        }
    };
}
sto_header_harness!(c01_rt_sto_header_e0, 0);
sto_header_harness!(c01_rt_sto_header_e1, 1);
sto_header_harness!(c01_rt_sto_header_e2, 2);
sto_header_harness!(c01_rt_sto_header_e3, 3);
sto_header_harness!(c01_rt_sto_header_e4, 4);
#[kani::proof]
#[kani::stub(alloc::fmt::format, fmt_stub)]
#[kani::stub(crate::parse::forward_to_next_storage_header, fwd_stub)]
#[kani::unwind(24)]
fn c01_rt_sto_header_e4mb() {
    rt_sto_header(text_exact_mb::<4>());
}

// ---------------------------------------------------------------------------------------------
// arguments
// ---------------------------------------------------------------------------------------------

pub fn arg_bytes(a: &Argument, big: bool) -> Vec<u8> {
    if big { a.as_bytes::<BigEndian>() } else { a.as_bytes::<LittleEndian>() }
}

/// the obligations shared by every argument harness (byte order concrete in each call)
///
/// Modular through the reference encoding `enc` (refcodec, written from the layout):
///   writer contract   a.as_bytes::<T>() == enc(a)          (C02 encoding, C15 len)
///   parser contract   dlt_argument::<T>(enc(a) ++ tail) == (a, tail)
/// hence parse(write(a) ++ tail) == (a, tail) (C01).
pub fn check_arg_roundtrip_order(a: &Argument, big: bool) {
    let bytes = arg_bytes(a, big);
    // writer == reference layout
    let mut o = Out::new();
    ref_put_argument(&mut o, a, big);
    assert!(o.eq_bytes(&bytes));
    // C15 computed length == serialised length, validity
    assert!(a.len() == bytes.len());
    assert!(a.valid());
    // parser on write(a) ++ tail (== enc(a) ++ tail by the assertion above)
    let n = bytes.len();
    let tail: [u8; 2] = kani::any();
    let mut buf = bytes.clone();
    buf.push(tail[0]);
    buf.push(tail[1]);
    let r = if big { dlt_argument::<BigEndian>(&buf) } else { dlt_argument::<LittleEndian>(&buf) };
    match r {
        Ok((rest, a2)) => {
            assert!(argument_eq(a, &a2));
            assert!(bytes_eq(rest, &tail));
            assert!(buf.len() - rest.len() == n);
        }
        Err(_) => { assert!(false); }
    }
}

/// NOTE (measured): the byte order must be a constant inside the body. A symbolic `big` makes the
/// two writer results (different heap objects) merge into pointer if-then-elses and CBMC does not
/// finish (> 10 GB); branching once at the top with constants costs 2 x 12 s.
pub fn check_arg_roundtrip(a: &Argument, big: bool) {
    if big { check_arg_roundtrip_order(a, true) } else { check_arg_roundtrip_order(a, false) }
}

fn type_info(kind: TypeInfoKind, vari: bool, sym_flags: bool) -> TypeInfo {
    TypeInfo {
        kind,
        coding: if sym_flags { any_coding() } else { StringCoding::UTF8 },
        has_variable_info: vari,
        has_trace_info: if sym_flags { kani::any() } else { false },
    }
}

/// name of exactly L bytes, unit of exactly U bytes (when variable info is on)
fn numeric_arg_nu<const L: usize, const U: usize>(kind: TypeInfoKind, value: Value, fixed_point: Option<FixedPoint>, vari: bool, sym_flags: bool) -> Argument {
    Argument {
        type_info: type_info(kind, vari, sym_flags),
        name: if vari { Some(text_exact::<L>()) } else { None },
        unit: if vari { Some(text_exact::<U>()) } else { None },
        fixed_point,
        value,
    }
}

fn numeric_arg<const L: usize>(kind: TypeInfoKind, value: Value, fixed_point: Option<FixedPoint>, vari: bool, sym_flags: bool) -> Argument {
    Argument {
        type_info: type_info(kind, vari, sym_flags),
        name: if vari { Some(text_exact::<L>()) } else { None },
        unit: if vari { Some(text_exact::<L>()) } else { None },
        fixed_point,
        value,
    }
}

fn any_fixed_point(w: FloatWidth) -> FixedPoint {
    FixedPoint {
        quantization: kani::any(),
        offset: match w {
            FloatWidth::Width32 => FixedPointValue::I32(kani::any()),
            FloatWidth::Width64 => FixedPointValue::I64(kani::any()),
        },
    }
}

macro_rules! arg_harness {
    ($name:ident, $unwind:expr, $vari:expr, $sym:expr, $L:expr, $kind:expr, $value:expr, $fp:expr) => {
        #[kani::proof]
        #[kani::stub(alloc::fmt::format, fmt_stub)]
        #[kani::unwind($unwind)]
        fn $name() {
            let a = numeric_arg::<$L>($kind, $value, $fp, $vari, $sym);
            check_arg_roundtrip(&a, kani::any());
        }
    };
}

// quick tier: concrete flags, no variable info, value symbolic, both orders — complete for the value
arg_harness!(c01_arg_u8, 28, false, false, 1, TypeInfoKind::Unsigned(TypeLength::BitLength8), Value::U8(kani::any()), None);
arg_harness!(c01_arg_u16, 28, false, false, 1, TypeInfoKind::Unsigned(TypeLength::BitLength16), Value::U16(kani::any()), None);
arg_harness!(c01_arg_u32, 28, false, false, 1, TypeInfoKind::Unsigned(TypeLength::BitLength32), Value::U32(kani::any()), None);
arg_harness!(c01_arg_u64, 28, false, false, 1, TypeInfoKind::Unsigned(TypeLength::BitLength64), Value::U64(kani::any()), None);
arg_harness!(c01_arg_u128, 28, false, false, 1, TypeInfoKind::Unsigned(TypeLength::BitLength128), Value::U128(kani::any()), None);
arg_harness!(c01_arg_i8, 28, false, false, 1, TypeInfoKind::Signed(TypeLength::BitLength8), Value::I8(kani::any()), None);
arg_harness!(c01_arg_i16, 28, false, false, 1, TypeInfoKind::Signed(TypeLength::BitLength16), Value::I16(kani::any()), None);
arg_harness!(c01_arg_i32, 28, false, false, 1, TypeInfoKind::Signed(TypeLength::BitLength32), Value::I32(kani::any()), None);
arg_harness!(c01_arg_i64, 28, false, false, 1, TypeInfoKind::Signed(TypeLength::BitLength64), Value::I64(kani::any()), None);
arg_harness!(c01_arg_i128, 28, false, false, 1, TypeInfoKind::Signed(TypeLength::BitLength128), Value::I128(kani::any()), None);
arg_harness!(c01_arg_f32, 28, false, false, 1, TypeInfoKind::Float(FloatWidth::Width32), Value::F32(kani::any()), None);
arg_harness!(c01_arg_f64, 28, false, false, 1, TypeInfoKind::Float(FloatWidth::Width64), Value::F64(kani::any()), None);
arg_harness!(c01_arg_sfix32, 28, false, false, 1, TypeInfoKind::SignedFixedPoint(FloatWidth::Width32), Value::I32(kani::any()), Some(any_fixed_point(FloatWidth::Width32)));
arg_harness!(c01_arg_sfix64, 28, false, false, 1, TypeInfoKind::SignedFixedPoint(FloatWidth::Width64), Value::I64(kani::any()), Some(any_fixed_point(FloatWidth::Width64)));
arg_harness!(c01_arg_ufix32, 28, false, false, 1, TypeInfoKind::UnsignedFixedPoint(FloatWidth::Width32), Value::U32(kani::any()), Some(any_fixed_point(FloatWidth::Width32)));
arg_harness!(c01_arg_ufix64, 28, false, false, 1, TypeInfoKind::UnsignedFixedPoint(FloatWidth::Width64), Value::U64(kani::any()), Some(any_fixed_point(FloatWidth::Width64)));


// thorough: symbolic coding / trace-info bits
arg_harness!(c01_arg_u32_symflags, 28, false, true, 1, TypeInfoKind::Unsigned(TypeLength::BitLength32), Value::U32(kani::any()), None);
arg_harness!(c01_arg_f64_symflags, 28, false, true, 1, TypeInfoKind::Float(FloatWidth::Width64), Value::F64(kani::any()), None);

fn text_arg<const L: usize, const S: usize>(kind: TypeInfoKind, vari: bool, sym_flags: bool) -> Argument {
    let value = match kind {
        TypeInfoKind::Bool => Value::Bool(kani::any()),
        TypeInfoKind::StringType => Value::StringVal(text_exact::<S>()),
        _ => Value::Raw(bytes_exact::<S>()),
    };
    Argument {
        type_info: type_info(kind, vari, sym_flags),
        name: if vari { Some(text_exact::<L>()) } else { None },
        unit: None,
        fixed_point: None,
        value,
    }
}

macro_rules! text_harness {
    ($name:ident, $L:expr, $S:expr, $kind:expr, $vari:expr) => {
        #[kani::proof]
        #[kani::stub(alloc::fmt::format, fmt_stub)]
        #[kani::unwind(28)]
        fn $name() {
            let a = text_arg::<$L, $S>($kind, $vari, false);
            check_arg_roundtrip(&a, kani::any());
        }
    };
}
// name length L, content length S: exact, one harness per length (NUL-free UTF-8 / any bytes)
text_harness!(c01_arg_bool, 0, 0, TypeInfoKind::Bool, false);
text_harness!(c01_arg_bool_vari_n0, 0, 0, TypeInfoKind::Bool, true);
text_harness!(c01_arg_bool_vari_n2, 2, 0, TypeInfoKind::Bool, true);
text_harness!(c01_arg_string_s0, 0, 0, TypeInfoKind::StringType, false);
text_harness!(c01_arg_string_s1, 0, 1, TypeInfoKind::StringType, false);
text_harness!(c01_arg_string_s3, 0, 3, TypeInfoKind::StringType, false);
text_harness!(c01_arg_string_vari_n1s2, 1, 2, TypeInfoKind::StringType, true);
text_harness!(c01_arg_raw_s0, 0, 0, TypeInfoKind::Raw, false);
text_harness!(c01_arg_raw_s3, 0, 3, TypeInfoKind::Raw, false);
text_harness!(c01_arg_raw_vari_n2s1, 2, 1, TypeInfoKind::Raw, true);

macro_rules! vari_harness {
    ($name:ident, $L:expr, $U:expr, $kind:expr, $value:expr, $fp:expr) => {
        #[kani::proof]
        #[kani::stub(alloc::fmt::format, fmt_stub)]
        #[kani::unwind(28)]
        fn $name() {
            let a = numeric_arg_nu::<$L, $U>($kind, $value, $fp, true, false);
            check_arg_roundtrip(&a, kani::any());
        }
    };
}
// numeric kinds with variable info: name of L bytes, unit of U bytes
vari_harness!(c01_arg_u32_vari_n1u2, 1, 2, TypeInfoKind::Unsigned(TypeLength::BitLength32), Value::U32(kani::any()), None);
vari_harness!(c01_arg_i16_vari_n2u0, 2, 0, TypeInfoKind::Signed(TypeLength::BitLength16), Value::I16(kani::any()), None);
vari_harness!(c01_arg_f32_vari_n0u1, 0, 1, TypeInfoKind::Float(FloatWidth::Width32), Value::F32(kani::any()), None);
vari_harness!(c01_arg_ufix32_vari_n1u1, 1, 1, TypeInfoKind::UnsignedFixedPoint(FloatWidth::Width32), Value::U32(kani::any()), Some(any_fixed_point(FloatWidth::Width32)));

/// variable info with NON-ASCII text: name = one 2-byte UTF-8 character, unit = one 3-byte
/// character (every code point of those lengths); the announced lengths are byte lengths
#[kani::proof]
#[kani::stub(alloc::fmt::format, fmt_stub)]
#[kani::unwind(28)]
fn c01_arg_u32_vari_mb() {
    let a = Argument {
        type_info: type_info(TypeInfoKind::Unsigned(TypeLength::BitLength32), true, false),
        name: Some(text_exact_mb::<2>()),
        unit: Some(text_exact_mb::<3>()),
        fixed_point: None,
        value: Value::U32(kani::any()),
    };
    check_arg_roundtrip(&a, kani::any());
}

// ---------------------------------------------------------------------------------------------
// whole messages (shapes)
// ---------------------------------------------------------------------------------------------

pub fn msg_bytes_with_tail(m: &Message, tail: &[u8]) -> Vec<u8> {
    let mut v = m.as_bytes();
    let mut i = 0;
    while i < tail.len() {
        v.push(tail[i]);
        i += 1;
    }
    v
}

/// obligations for one well-formed message value
pub fn check_message_roundtrip(m: &Message) {
    let with_storage = m.storage_header.is_some();
    let bytes = m.as_bytes();
    // C02 encoding: the bytes are the layout
    let o = ref_encode_message(m);
    assert!(o.eq_bytes(&bytes));
    // C15: byte_len == serialisation without storage header
    assert!(m.byte_len() as usize + (if with_storage { 16 } else { 0 }) == bytes.len());
    let tail: [u8; 2] = kani::any();
    let buf = msg_bytes_with_tail(m, &tail);
    match dlt_message(&buf, None, with_storage) {
        Ok((rest, ParsedMessage::Item(m2))) => {
            assert!(message_eq(m, &m2));
            assert!(bytes_eq(rest, &tail));
            // C16: stability
            assert!(bytes_eq(&m2.as_bytes(), &bytes));
        }
        _ => { assert!(false); }
    }
}

pub fn finish_message<const ID: usize>(payload: PayloadContent, ext: Option<ExtendedHeader>, with_storage: bool) -> Message {
    let mut h = any_std_header::<ID>(ext.is_some(), 0);
    let big = h.endianness == Endianness::Big;
    h.payload_length = ref_payload_len(&payload, big) as u16;
    Message {
        storage_header: if with_storage { Some(any_storage_header::<ID>()) } else { None },
        header: h,
        extended_header: ext,
        payload,
    }
}

/// no extended header, non-verbose payload
#[kani::proof]
#[kani::stub(alloc::fmt::format, fmt_stub)]
#[kani::stub(crate::parse::forward_to_next_storage_header, fwd_stub)]
#[kani::unwind(40)]
fn c01_msg_nonverbose_noext() {
    let p = PayloadContent::NonVerbose(kani::any(), any_bytes::<2>());
    let m = finish_message::<2>(p, None, kani::any());
    check_message_roundtrip(&m);
}

#[kani::proof]
#[kani::stub(alloc::fmt::format, fmt_stub)]
#[kani::stub(crate::parse::forward_to_next_storage_header, fwd_stub)]
#[kani::unwind(50)]
fn c01_msg_nonverbose_ext() {
    let p = PayloadContent::NonVerbose(kani::any(), any_bytes::<2>());
    let t = any_canonical_message_type();
    kani::assume(!matches!(t, MessageType::Control(_)));
    let e = any_ext_header::<2>(false, 0, t);
    let m = finish_message::<2>(p, Some(e), kani::any());
    check_message_roundtrip(&m);
}

#[kani::proof]
#[kani::stub(alloc::fmt::format, fmt_stub)]
#[kani::stub(crate::parse::forward_to_next_storage_header, fwd_stub)]
#[kani::unwind(50)]
fn c01_msg_control() {
    let id: u8 = kani::any();
    let p = PayloadContent::ControlMsg(ControlType::from_value(id), any_bytes::<2>());
    let ct = if kani::any() { ControlType::Request } else { ControlType::Response };
    let e = any_ext_header::<2>(false, 0, MessageType::Control(ct));
    let m = finish_message::<2>(p, Some(e), kani::any());
    check_message_roundtrip(&m);
}

#[kani::proof]
#[kani::stub(alloc::fmt::format, fmt_stub)]
#[kani::stub(crate::parse::forward_to_next_storage_header, fwd_stub)]
#[kani::unwind(50)]
fn c01_msg_verbose_u32() {
    let a = numeric_arg::<1>(TypeInfoKind::Unsigned(TypeLength::BitLength32), Value::U32(kani::any()), None, false, false);
    let p = PayloadContent::Verbose(vec![a]);
    let t = any_canonical_message_type();
    kani::assume(!matches!(t, MessageType::NetworkTrace(_)));
    let e = any_ext_header::<2>(true, 1, t);
    let m = finish_message::<2>(p, Some(e), kani::any());
    check_message_roundtrip(&m);
}

#[kani::proof]
#[kani::stub(alloc::fmt::format, fmt_stub)]
#[kani::stub(crate::parse::forward_to_next_storage_header, fwd_stub)]
#[kani::unwind(50)]
fn c01_msg_verbose_string_bool() {
    let a = text_arg::<1, 2>(TypeInfoKind::StringType, false, false);
    let b = text_arg::<1, 1>(TypeInfoKind::Bool, false, false);
    let p = PayloadContent::Verbose(vec![a, b]);
    let e = any_ext_header::<2>(true, 2, MessageType::Log(LogLevel::Info));
    let m = finish_message::<2>(p, Some(e), kani::any());
    check_message_roundtrip(&m);
}

/// network trace, BOTH byte orders (the case the test-suite never generates)
#[kani::proof]
#[kani::stub(alloc::fmt::format, fmt_stub)]
#[kani::stub(crate::parse::forward_to_next_storage_header, fwd_stub)]
#[kani::unwind(50)]
fn c01_msg_nwtrace() {
    let n: u8 = kani::any();
    kani::assume(n <= 2);
    let mut slices = Vec::new();
    if n >= 1 {
        slices.push(any_bytes::<2>());
    }
    if n >= 2 {
        slices.push(any_bytes::<1>());
    }
    let p = PayloadContent::NetworkTrace(slices);
    let nt = if kani::any() { NetworkTraceType::Can } else { NetworkTraceType::Someip };
    let e = any_ext_header::<2>(true, n, MessageType::NetworkTrace(nt));
    let m = finish_message::<2>(p, Some(e), kani::any());
    check_message_roundtrip(&m);
}

// ---------------------------------------------------------------------------------------------
// message writer glue on constant shapes: Message::as_bytes == storage header ++ standard header
// (LEN = all headers + payload) ++ extended header ++ payload, each part the reference layout
// ---------------------------------------------------------------------------------------------

fn msg_write_case(with_storage: bool, with_ext: bool, big: bool, payload: PayloadContent, pl_len: u16) {
    let h = StandardHeader {
        version: 1,
        endianness: if big { Endianness::Big } else { Endianness::Little },
        has_extended_header: with_ext,
        message_counter: kani::any(),
        ecu_id: Some(ascii_exact::<3>()),
        session_id: None,
        timestamp: Some(kani::any()),
        payload_length: pl_len,
    };
    let e = if with_ext {
        Some(ExtendedHeader { verbose: false, argument_count: 0, message_type: MessageType::Log(LogLevel::Warn), application_id: ascii_exact::<4>(), context_id: ascii_exact::<1>() })
    } else {
        None
    };
    let sh = if with_storage { Some(StorageHeader { timestamp: DltTimeStamp { seconds: kani::any(), microseconds: kani::any() }, ecu_id: ascii_exact::<4>() }) } else { None };
    let m = Message { storage_header: sh, header: h, extended_header: e, payload };
    let bytes = m.as_bytes();
    let o = ref_encode_message(&m);
    assert!(o.eq_bytes(&bytes));
    let hl: usize = 4 + 4 + 4 + if with_ext { 10 } else { 0 };
    assert!(m.byte_len() as usize == hl + pl_len as usize);
    assert!(bytes.len() == m.byte_len() as usize + if with_storage { 16 } else { 0 });
}

macro_rules! msg_write_harness {
    ($name:ident, $sto:expr, $ext:expr, $big:expr, $payload:expr, $pl:expr) => {
        #[kani::proof]
        #[kani::stub(alloc::fmt::format, fmt_stub)]
        #[kani::unwind(60)]
        fn $name() {
            msg_write_case($sto, $ext, $big, $payload, $pl);
        }
    };
}
msg_write_harness!(c01_msg_write_nv_sto_ext_be, true, true, true, PayloadContent::NonVerbose(kani::any(), bytes_exact::<2>()), 6);
msg_write_harness!(c01_msg_write_nv_noext_le, false, false, false, PayloadContent::NonVerbose(kani::any(), bytes_exact::<1>()), 5);
msg_write_harness!(c01_msg_write_ctrl_ext_le, false, true, false, PayloadContent::ControlMsg(ControlType::from_value(kani::any()), bytes_exact::<2>()), 3);

// ---------------------------------------------------------------------------------------------
// text arguments, PARSER side, from bytes on constant shapes (the writer side of text arguments
// is not covered: see DESIGN.md §8). buf = type info (constant) ++ 16-bit length (constant)
// [++ name length (constant) ++ name bytes] ++ content bytes (symbolic, every value incl. NUL
// and invalid UTF-8) ++ tail. Expected text = longest valid-UTF-8 prefix before the first NUL.
// ---------------------------------------------------------------------------------------------

fn ref_text(field: &[u8]) -> usize {
    let k = super::c19::ref_first_nul(field);
    super::c19::ref_utf8_prefix_len(&field[..k])
}

fn string_parse_case<const S: usize, const L: usize>(big: bool) {
    let w: u32 = TI_STRG | (1 << TI_SCOD_SHIFT);
    let wb = if big { w.to_be_bytes() } else { w.to_le_bytes() };
    let lb = if big { (S as u16).to_be_bytes() } else { (S as u16).to_le_bytes() };
    let c: [u8; S] = kani::any();
    let tail: [u8; 2] = kani::any();
    let mut buf = [0u8; L];
    buf[0] = wb[0];
    buf[1] = wb[1];
    buf[2] = wb[2];
    buf[3] = wb[3];
    buf[4] = lb[0];
    buf[5] = lb[1];
    let mut i = 0;
    while i < S {
        buf[6 + i] = c[i];
        i += 1;
    }
    buf[6 + S] = tail[0];
    buf[7 + S] = tail[1];
    let r = if big { dlt_argument::<BigEndian>(&buf) } else { dlt_argument::<LittleEndian>(&buf) };
    match r {
        Ok((rest, a)) => {
            assert!(bytes_eq(rest, &tail));
            assert!(a.type_info.kind == TypeInfoKind::StringType && a.name.is_none() && a.unit.is_none() && a.fixed_point.is_none());
            match &a.value {
                Value::StringVal(s) => {
                    let n = ref_text(&c);
                    assert!(s.len() == n);
                    assert!(bytes_eq(s.as_bytes(), &c[..n]));
                }
                _ => { assert!(false); }
            }
        }
        Err(_) => { assert!(false); }
    }
}

#[kani::proof]
#[kani::stub(alloc::fmt::format, fmt_stub)]
#[kani::unwind(16)]
fn c01_argp_string_s3_be() {
    string_parse_case::<3, 11>(true);
}
#[kani::proof]
#[kani::stub(alloc::fmt::format, fmt_stub)]
#[kani::unwind(16)]
fn c01_argp_string_s1_le() {
    string_parse_case::<1, 9>(false);
}
#[kani::proof]
#[kani::stub(alloc::fmt::format, fmt_stub)]
#[kani::unwind(16)]
fn c01_argp_string_s0_be() {
    string_parse_case::<0, 8>(true);
}
