//! C18 — fixed-point arguments convert to quantization x value + offset without panicking.
//! Loop-free, floats bit-precise in CBMC: complete over every kind, every value variant,
//! every f32 quantization bit pattern and every i32 / i64 offset.
use super::util::*;
use crate::dlt::*;

pub fn any_type_length() -> TypeLength {
    match kani::any::<u8>() % 5 {
        0 => TypeLength::BitLength8,
        1 => TypeLength::BitLength16,
        2 => TypeLength::BitLength32,
        3 => TypeLength::BitLength64,
        _ => TypeLength::BitLength128,
    }
}
pub fn any_float_width() -> FloatWidth {
    if kani::any() { FloatWidth::Width32 } else { FloatWidth::Width64 }
}
pub fn any_kind() -> TypeInfoKind {
    match kani::any::<u8>() % 8 {
        0 => TypeInfoKind::Bool,
        1 => TypeInfoKind::Signed(any_type_length()),
        2 => TypeInfoKind::SignedFixedPoint(any_float_width()),
        3 => TypeInfoKind::Unsigned(any_type_length()),
        4 => TypeInfoKind::UnsignedFixedPoint(any_float_width()),
        5 => TypeInfoKind::Float(any_float_width()),
        6 => TypeInfoKind::StringType,
        _ => TypeInfoKind::Raw,
    }
}
pub fn any_coding() -> StringCoding {
    match kani::any::<u8>() % 8 {
        0 => StringCoding::ASCII,
        1 => StringCoding::UTF8,
        v => StringCoding::Reserved(v),
    }
}
/// every value variant; strings / raw are represented by one fixed content (their content is
/// irrelevant to this property: only the variant matters)
pub fn any_value_variant() -> Value {
    match kani::any::<u8>() % 15 {
        0 => Value::Bool(kani::any()),
        1 => Value::U8(kani::any()),
        2 => Value::U16(kani::any()),
        3 => Value::U32(kani::any()),
        4 => Value::U64(kani::any()),
        5 => Value::U128(kani::any()),
        6 => Value::I8(kani::any()),
        7 => Value::I16(kani::any()),
        8 => Value::I32(kani::any()),
        9 => Value::I64(kani::any()),
        10 => Value::I128(kani::any()),
        11 => Value::F32(kani::any()),
        12 => Value::F64(kani::any()),
        13 => Value::StringVal(String::new()),
        _ => Value::Raw(Vec::new()),
    }
}

/// physical value as f64 for the integer variants of at most 64 bits (reference side)
fn ref_phys(v: &Value) -> Option<f64> {
    match v {
        Value::I8(x) => Some(*x as f64),
        Value::I16(x) => Some(*x as f64),
        Value::I32(x) => Some(*x as f64),
        Value::I64(x) => Some(*x as f64),
        Value::U8(x) => Some(*x as f64),
        Value::U16(x) => Some(*x as f64),
        Value::U32(x) => Some(*x as f64),
        Value::U64(x) => Some(*x as f64),
        _ => None,
    }
}

/// Postcondition of `Argument::to_real_value`, written from the property statement.
pub fn post_to_real_value(a: &Argument, r: &Option<u64>) -> bool {
    let fixed_kind = matches!(
        a.type_info.kind,
        TypeInfoKind::SignedFixedPoint(_) | TypeInfoKind::UnsignedFixedPoint(_)
    );
    let phys = ref_phys(&a.value);
    // (b) nothing unless fixed-point kind with fixed-point data and an integer value
    if !(fixed_kind && a.fixed_point.is_some() && phys.is_some()) {
        return r.is_none();
    }
    let fp = match &a.fixed_point {
        Some(fp) => fp,
        None => return false,
    };
    let p_f = match phys {
        Some(p) => p * (fp.quantization as f64),
        None => return false,
    };
    let off: i128 = match fp.offset {
        FixedPointValue::I32(v) => v as i128,
        FixedPointValue::I64(v) => v as i128,
    };
    // (c) product (double precision, truncated toward zero) non-negative, sum in 0 .. 2^63.
    // The product itself may be as large as 2^64 - 1 (a negative offset brings the sum back into
    // range); from 2^64 on the sum with any 64-bit offset is >= 2^63 and nothing is claimed.
    if p_f >= 0.0 && p_f < 18446744073709551616.0 {
        let p = p_f as u64 as i128; // exact truncation in this range
        let sum = p + off;
        if sum >= 0 && sum < (1i128 << 63) {
            return *r == Some(sum as u64);
        }
    }
    true
}

/// value variants split into groups so that each proof stays small: 0 = 8/16-bit integers,
/// 1 = 32-bit, 2 = I64, 3 = U64, 4 = every non-integer / 128-bit variant
fn value_in_group(g: u8) -> Value {
    match g {
        0 => match kani::any::<u8>() % 4 {
            0 => Value::U8(kani::any()),
            1 => Value::U16(kani::any()),
            2 => Value::I8(kani::any()),
            _ => Value::I16(kani::any()),
        },
        1 => if kani::any() { Value::U32(kani::any()) } else { Value::I32(kani::any()) },
        2 => Value::I64(kani::any()),
        3 => Value::U64(kani::any()),
        _ => match kani::any::<u8>() % 7 {
            0 => Value::Bool(kani::any()),
            1 => Value::U128(kani::any()),
            2 => Value::I128(kani::any()),
            3 => Value::F32(kani::any()),
            4 => Value::F64(kani::any()),
            5 => Value::StringVal(String::new()),
            _ => Value::Raw(Vec::new()),
        },
    }
}

fn any_argument(g: u8) -> Argument {
    any_argument_split(g, 0)
}

/// `part`: 0 = everything in one proof; the 64-bit value groups are split into four parts by
/// offset width and sign of the quantization (1: I32 / q sign bit clear, 2: I32 / set,
/// 3: I64 / clear, 4: I64 / set) and one part without fixed-point data (5); together they cover
/// the same domain, each proof stays within minutes
fn any_argument_split(g: u8, part: u8) -> Argument {
    let fixed_point = if part == 5 {
        None
    } else if part != 0 || kani::any() {
        let q: f32 = kani::any();
        if part == 1 || part == 3 {
            kani::assume(q.to_bits() >> 31 == 0);
        }
        if part == 2 || part == 4 {
            kani::assume(q.to_bits() >> 31 == 1);
        }
        let off32: bool = if part == 0 { kani::any() } else { part <= 2 };
        Some(FixedPoint {
            quantization: q,
            offset: if off32 {
                FixedPointValue::I32(kani::any())
            } else {
                FixedPointValue::I64(kani::any())
            },
        })
    } else {
        None
    };
    Argument {
        type_info: TypeInfo {
            kind: any_kind(),
            coding: any_coding(),
            has_variable_info: kani::any(),
            has_trace_info: kani::any(),
        },
        name: None,
        unit: None,
        fixed_point,
        value: value_in_group(g),
    }
}

macro_rules! c18_harness {
    ($name:ident, $g:expr) => {
        /// (a) never panics + (b) + (c): proves the contract spliced onto `Argument::to_real_value`
        #[kani::proof_for_contract(crate::dlt::Argument::to_real_value)]
        fn $name() {
            let a = any_argument($g);
            let r = a.to_real_value();
            kani::cover!(r.is_some() || $g == 4);
            kani::cover!(r.is_none());
        }
    };
}
macro_rules! c18_split_harness {
    ($name:ident, $g:expr, $part:expr) => {
        #[kani::proof_for_contract(crate::dlt::Argument::to_real_value)]
        fn $name() {
            let a = any_argument_split($g, $part);
            let _ = a.to_real_value();
        }
    };
}
c18_harness!(c18_contract_int8_16, 0);
c18_harness!(c18_contract_int32, 1);
c18_split_harness!(c18_contract_i64_p1, 2, 1);
c18_split_harness!(c18_contract_i64_p2, 2, 2);
c18_split_harness!(c18_contract_i64_p3, 2, 3);
c18_split_harness!(c18_contract_i64_p4, 2, 4);
c18_split_harness!(c18_contract_i64_p5, 2, 5);
c18_split_harness!(c18_contract_u64_p1, 3, 1);
c18_split_harness!(c18_contract_u64_p3, 3, 3);
c18_split_harness!(c18_contract_u64_p2, 3, 2);
c18_split_harness!(c18_contract_u64_p4, 3, 4);
c18_split_harness!(c18_contract_u64_p5, 3, 5);
c18_harness!(c18_contract_other, 4);
