//! Kani harness module, injected into a scratch copy of the crate by `vx inject`
//! (`#[cfg(kani)] mod verif_kani;` appended to lib.rs). Nothing here is compiled by the
//! normal build. Harness names are prefixed with the property id they serve.
#![allow(dead_code, unused_imports, clippy::all)]

pub mod util;
pub mod refcodec;
pub mod c14;
