//! Kani harness module, injected into a scratch copy of the crate by `vx inject`
//! (`#[cfg(kani)] mod verif_kani;` appended to lib.rs). Nothing here is compiled by the
//! normal build. Harness names are prefixed with the property id they serve.
#![allow(dead_code, unused_imports, clippy::all)]

pub mod util;
pub mod refcodec;
pub mod gen;
pub mod c01;
pub mod c02;
pub mod c04;
pub mod c06;
pub mod c07;
pub mod c09;
#[cfg(feature = "statistics")]
pub mod c10;
pub mod c13;
pub mod c14;
pub mod c15;
pub mod c16;
pub mod c18;
pub mod c19;
pub mod exp;
